(* runner commands for C03 / C04 / C05 (reader-side authentication) *)
From Isomdl Require Import Lib.Bytes Lib.Cbor Model.Cose Model.KeySchedule Model.ReaderAuth Spec.CoseRfc Spec.ReaderAuthSpec Proofs.ReaderAuthProofs.
Open Scope N_scope.
Local Open Scope string_scope.

Definition cose_of_bytes (enc : bytes) : option cose1 :=
  match decode_first enc with Some v => cose1_of_cbor tag_sign1 v | None => None end.

Fixpoint bytes_list (l : list cbor) : option (list bytes) :=
  match l with [] => Some [] | CBytes b :: r => option_map (cons b) (bytes_list r) | _ => None end.

Fixpoint nss_of (l : list cbor) : option (list (bytes * list bytes)) :=
  match l with
  | [] => Some []
  | CArray [CText ns; CArray items] :: r =>
    match bytes_list items, nss_of r with Some i, Some r' => Some ((ns, i) :: r') | _, _ => None end
  | _ => None
  end.

Definition doc_of (c : cbor) : option rdoc :=
  match c with
  | CArray [CText dt; CBytes ia; nss; CBytes dns; da] =>
    match cose_of_bytes ia with
    | None => None
    | Some iac =>
      let nso := match nss with
                 | CNull => Some None
                 | CArray l => option_map Some (nss_of l)
                 | _ => None end in
      let dao := match da with
                 | CArray [CUInt 0; CBytes e] => option_map DSignature (cose_of_bytes e)
                 | CArray [CUInt 1] => Some DMac
                 | _ => None end in
      match nso, dao with
      | Some n, Some a => Some {| rd_doc_type := dt; rd_issuer_auth := iac; rd_namespaces := n; rd_device_ns := dns; rd_device_auth := a |}
      | _, _ => None
      end
    end
  | _ => None
  end.

Definition oracle_verifier (alg : Z) (c : cbor) : option verifier :=
  match c with
  | CArray [CBool parses; CBool ok] => Some {| v_alg := alg; v_parse := fun _ => parses; v_check := fun _ _ => ok |}
  | _ => None
  end.

Definition env_of (c : cbor) : option renv :=
  match c with
  | CArray [CBytes de; CBytes erk; ho; CUInt x; CBool cv; CBool lk; iv; CBool mo; CBool dp; dv] =>
    match oracle_verifier (-7)%Z iv, oracle_verifier (-7)%Z dv with
    | Some i, Some d =>
      Some {| e_de := de; e_erk := erk; e_handover := ho;
              e_x5 := if x =? 0 then X5Missing else if x =? 1 then X5Unparsable else X5Chain;
              e_chain_valid := cv; e_leaf_key_ok := lk; e_issuer_verifier := i; e_mso_ok := mo;
              e_device_point_ok := dp; e_device_verifier := d |}
    | _, _ => None
    end
  | _ => None
  end.

Definition status_code (s : status) : N := match s with Unchecked => 0 | Invalid => 1 | Valid => 2 end.
Definition err_code (e : err_class) : N := match e with EParsing => 0 | ECertificate => 1 | EIssuerAuth => 2 | EDeviceAuth => 3 end.

Fixpoint insert_n (n : N) (l : list N) : list N :=
  match l with [] => [n] | x :: r => if n =? x then l else if n <? x then n :: l else x :: insert_n n r end.

Definition cbor_of_outcome (o : outcome) : cbor :=
  CArray [CUInt (status_code (o_issuer o)); CUInt (status_code (o_device o));
          CArray (map CUInt (fold_right insert_n [] (map err_code (o_errors o)))); CBool (o_reported o)].

Definition opt_b (o : option bytes) : cbor := match o with Some b => CBytes b | None => CNull end.

(* device public key material in the MSO, for the harness's device-signature oracle *)
Definition device_key_cbor (d : rdoc) : cbor :=
  match c_payload (rd_issuer_auth d) with
  | Some p => match mso_map p with
              | Some mso => match mso_device_key mso with
                            | Some (EC2 crv x (YValue y)) => CArray [CUInt crv; CBytes x; CBytes y]
                            | Some (EC2 crv x (YSign s)) => CArray [CUInt crv; CBytes x; CBool s]
                            | Some (OKP crv x) => CArray [CUInt crv; CBytes x]
                            | None => CNull end
              | None => CNull end
  | None => CNull
  end.

Definition api_reader_auth (cmd : bytes) (args : list cbor) : option cbor :=
  if bytes_eqb cmd (bytes_of_string "ra.tbs") then
    (* transcript (de, erk, handover) + document -> [issuer tbs | null, device tbs | null, device key] *)
    match args with
    | [CBytes de; CBytes erk; ho; dc] =>
      match doc_of dc with
      | Some d =>
        let env := {| e_de := de; e_erk := erk; e_handover := ho; e_x5 := X5Chain; e_chain_valid := true; e_leaf_key_ok := true;
                      e_issuer_verifier := hmac_verifier []; e_mso_ok := true; e_device_point_ok := true; e_device_verifier := hmac_verifier [] |} in
        let itbs := match prepare ctx_sign1 (rd_issuer_auth d) None None with POk t => Some t | PErr _ => None end in
        let dtbs := match rd_device_auth d with
                    | DSignature c => match prepare ctx_sign1 c (Some (device_authentication_bytes env (rd_doc_type d) (rd_device_ns d))) None with
                                      | POk t => Some t | PErr _ => None end
                    | DMac => None end in
        Some (CArray [opt_b itbs; opt_b dtbs; device_key_cbor d])
      | None => Some (CArray [ctext "undecodable document"])
      end
    | _ => None
    end
  else if bytes_eqb cmd (bytes_of_string "ra.validate") then
    match args with
    | [e; dc] =>
      match env_of e, doc_of dc with
      | Some env, Some d => Some (cbor_of_outcome (validate_document env d))
      | _, _ => Some (CArray [ctext "undecodable arguments"])
      end
    | _ => None
    end
  else if bytes_eqb cmd (bytes_of_string "c05.device_payload") then
    (* what the device offers for signing: protected bytes, transcript, docType, device namespaces bytes *)
    match args with
    | [CBytes prot; CBytes de; CBytes erk; ho; CText dt; CBytes ns] =>
      Some (match device_signature_payload prot de erk ho dt ns with POk t => CBytes t | PErr _ => CNull end)
    | _ => None
    end
  else if bytes_eqb cmd (bytes_of_string "c05.spec_payload") then
    match args with
    | [CBytes prot; CBytes de; CBytes erk; ho; CText dt; CBytes ns; CBytes obs] =>
      Some (if bytes_eqb obs (iso_device_tbs prot de erk ho dt ns) then ctext "ok"
            else ctext "fail:bytes offered for signing are not Sig_structure over DeviceAuthenticationBytes of this session / docType / device namespaces")
    | _ => Some (ctext "fail:no payload offered")
    end
  else if bytes_eqb cmd (bytes_of_string "c03.spec") then
    (* issuer status Valid only if: x5chain present and decodable, chain validates, the signature verifies
       under the first certificate's key over the RFC structure of the attached payload and protected bytes;
       a non-Valid status comes with an error entry *)
    match args with
    | [e; dc; CArray [CUInt ist; _; CArray errs; _]] =>
      match env_of e, doc_of dc with
      | Some env, Some d =>
        let authentic :=
            match c_payload (rd_issuer_auth d) with
            | Some p => v_parse (e_issuer_verifier env) (c_sig (rd_issuer_auth d)) &&
                        v_check (e_issuer_verifier env) (iso_issuer_tbs (c_protected (rd_issuer_auth d)) p) (c_sig (rd_issuer_auth d))
            | None => false end in
        let alg_ok := match alg_of_protected (c_protected (rd_issuer_auth d)) with
                      | AlgAbsent => true | AlgInt z => Z.eqb z (-7) | _ => false end in
        let may_be_valid := match e_x5 env with X5Chain => true | _ => false end && e_chain_valid env && e_leaf_key_ok env && authentic && alg_ok in
        Some (if (ist =? 2) && negb may_be_valid then
                ctext "fail:issuer authentication Valid although the x5chain / chain validation / signature condition does not hold"
              else if negb (ist =? 2) && match errs with [] => true | _ => false end then
                ctext "fail:issuer authentication not Valid but no error entry"
              else ctext "ok")
      | _, _ => None
      end
    | _ => None
    end
  else if bytes_eqb cmd (bytes_of_string "c04.spec") then
    (* issuer status Valid only if every disclosed item is covered by the MSO and docTypes agree *)
    match args with
    | [dc; CArray [CUInt ist; _; _; _]] =>
      match doc_of dc with
      | Some d =>
        let bound :=
            match c_payload (rd_issuer_auth d) with
            | Some p =>
              match mso_map p with
              | Some mso =>
                match map_get (tx "docType") mso, map_get (tx "digestAlgorithm") mso with
                | Some (CText dt), Some (CText a) =>
                  let alg := if bytes_eqb a (bytes_of_string "SHA-256") then 256 else if bytes_eqb a (bytes_of_string "SHA-384") then 384 else 512 in
                  bytes_eqb dt (rd_doc_type d) &&
                  match rd_namespaces d with
                  | None => true
                  | Some nss =>
                    forallb (fun ni =>
                      forallb (fun it =>
                        match item_digest_id it with
                        | Some id => match mso_digest mso (fst ni) id with
                                     | Some dg => bytes_eqb dg (iso_item_digest alg it)
                                     | None => false end
                        | None => false end) (snd ni)) nss
                  end
                | _, _ => false
                end
              | None => false
              end
            | None => false
            end in
        Some (if (ist =? 2) && negb bound then
                ctext "fail:issuer authentication Valid although a reported element (or the docType) is not covered by the signed MSO"
              else ctext "ok")
      | None => None
      end
    | _ => None
    end
  else if bytes_eqb cmd (bytes_of_string "c04.spec_reported") then
    (* issuer status Valid only if every element the reader REPORTS (namespace, identifier) is the
       elementIdentifier of an item of that namespace of the document that was authenticated (dc) *)
    match args with
    | [dc; CArray [CUInt ist; CArray reported]] =>
      match doc_of dc with
      | Some d =>
        let item_identifier (it : bytes) : option bytes :=
            match decode_first it with
            | Some (CMap m) => match map_get (tx "elementIdentifier") m with Some (CText i) => Some i | _ => None end
            | _ => None
            end in
        let covered (r : cbor) : bool :=
            match r with
            | CArray [CText ns; CText id] =>
              match rd_namespaces d with
              | Some nss =>
                existsb (fun ni => bytes_eqb (fst ni) ns &&
                                   existsb (fun it => match item_identifier it with Some i => bytes_eqb i id | None => false end) (snd ni)) nss
              | None => false
              end
            | _ => false
            end in
        Some (if (ist =? 2) && negb (forallb covered reported) then
                ctext "fail:issuer authentication Valid although a reported element is not an element of the authenticated document"
              else ctext "ok")
      | None => None
      end
    | _ => None
    end
  else if bytes_eqb cmd (bytes_of_string "c05.spec") then
    (* device status Valid only if the device signature verifies under the MSO device key over the
       DeviceAuthentication structure of THIS session, docType and device namespaces; never a panic *)
    match args with
    | [e; dc; obs] =>
      match env_of e, doc_of dc with
      | Some env, Some d =>
        match obs with
        | CArray [_; CUInt dst; _; _] =>
          let authentic :=
              match rd_device_auth d with
              | DSignature c =>
                match c_payload c with
                | None =>
                  e_device_point_ok env && v_parse (e_device_verifier env) (c_sig c) &&
                  v_check (e_device_verifier env)
                          (iso_device_tbs (c_protected c) (e_de env) (e_erk env) (e_handover env) (rd_doc_type d) (rd_device_ns d)) (c_sig c)
                | Some _ => false
                end
              | DMac => false
              end in
          Some (if (dst =? 2) && negb authentic then
                  ctext "fail:device authentication Valid although the signature does not verify over this session's DeviceAuthentication"
                else ctext "ok")
        | _ => Some (ctext "fail:response handling did not return an outcome (panic)")
        end
      | _, _ => None
      end
    | _ => None
    end
  else None.
