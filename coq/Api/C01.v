(* runner commands for C01: what an honest reader must report for a round *)
From Isomdl Require Import Lib.Bytes Lib.Cbor Model.Select Model.Render Spec.SelectCheck Api.C02.
Open Scope N_scope.
Local Open Scope string_scope.

Definition vitem : Type := bytes * cbor.      (* (identifier, element value) *)

Fixpoint vitems_of (l : list cbor) : option (list (key * vitem)) :=
  match l with
  | [] => Some []
  | CArray [CText id; v] :: r => option_map (cons (id, (id, v))) (vitems_of r)
  | _ => None
  end.

Fixpoint vheld_ns_of (l : list cbor) : option (list (key * list (key * vitem))) :=
  match l with
  | [] => Some []
  | CArray [CText ns; CArray items] :: r =>
    match vitems_of items, vheld_ns_of r with Some i, Some r' => Some ((ns, i) :: r') | _, _ => None end
  | _ => None
  end.

Fixpoint vdocs_of (l : list cbor) : option (list (key * document vitem)) :=
  match l with
  | [] => Some []
  | CArray [CText dt; CBool cs; CArray nss] :: r =>
    match vheld_ns_of nss, vdocs_of r with
    | Some n, Some r' => Some ((dt, {| d_can_sign := cs; d_ns := n |}) :: r')
    | _, _ => None
    end
  | _ => None
  end.

Definition mdl : bytes := bytes_of_string "org.iso.18013.5.1.mDL".

(* the model's prediction: selection (C02), then rendering of the mDL document's namespaces *)
Definition expected_report (docs : list (key * document vitem)) (req : request) (perm : permitted) : option cbor :=
  match find (fun pd => bytes_eqb (pd_doc_type pd) mdl) (sel_docs (prepare_response docs req perm)) with
  | Some pd => reported (pd_disclosed pd)
  | None => None
  end.

(* the specification's own computation: every held element of the mDL that is requested and
   permitted, rendered; nothing else *)
Definition spec_namespace (docs : list (key * document vitem)) (req : request) (perm : permitted) (ns : bytes) : option (list (bytes * cbor)) :=
  match aget mdl docs with
  | Some d =>
    match aget ns (d_ns d) with
    | Some items =>
      let chosen := filter (fun it => requested_any_b req mdl ns (fst it) && permitted_b perm mdl ns (fst it)) items in
      match chosen with
      | [] => None
      | _ => Some (fold_left (fun acc it => match render (snd (snd it)) with Some v => obj_insert (fst it) v acc | None => acc end) chosen [])
      end
    | None => None
    end
  | None => None
  end.

Definition spec_report (docs : list (key * document vitem)) (req : request) (perm : permitted) : option cbor :=
  match spec_namespace docs req perm ns_core with
  | None => None
  | Some core =>
    Some (obj_to_cbor ((ns_core, obj_to_cbor core) ::
                       match spec_namespace docs req perm ns_aamva with
                       | Some a => [(ns_aamva, obj_to_cbor a)]
                       | None => []
                       end))
  end.

Definition api_c01 (cmd : bytes) (args : list cbor) : option cbor :=
  if bytes_eqb cmd (bytes_of_string "c01.round") then
    (* held documents, request, permitted -> [keys agree, ble agree, issuer status, device status, no errors, report] *)
    match args with
    | [CArray docs; CArray req; CArray perm] =>
      match vdocs_of docs, reqs_of req, reqs_of perm with
      | Some d, Some r, Some p =>
        Some (match expected_report d r p with
              | Some rep => CArray [CBool true; CBool true; CUInt 2; CUInt 2; CBool true; rep]
              | None => CArray [CBool true; CBool true; CUInt 0; CUInt 0; CBool false; CNull]
              end)
      | _, _, _ => None
      end
    | _ => None
    end
  else if bytes_eqb cmd (bytes_of_string "c01.spec") then
    match args with
    | [CArray docs; CArray req; CArray perm; CArray [CBool keys; CBool ble; CUInt ist; CUInt dst; CBool noerr; rep]] =>
      match vdocs_of docs, reqs_of req, reqs_of perm with
      | Some d, Some r, Some p =>
        Some (if negb keys then ctext "fail:device and reader hold different session keys"
              else if negb ble then ctext "fail:device and reader computed different BLE ident values"
              else match spec_report d r p with
                   | Some expected =>
                     if negb (cbor_eqb rep expected) then ctext "fail:the reader does not report exactly the requested, permitted and held elements with their issued values"
                     else if negb ((ist =? 2) && (dst =? 2)) then ctext "fail:issuer / device authentication not Valid in an honest presentation with the issuer's root as trust anchor"
                     else if negb noerr then ctext "fail:errors reported in an honest presentation"
                     else ctext "ok"
                   | None => ctext "n/a:nothing of the core namespace is disclosed (the reader reports a parsing error)"
                   end)
      | _, _, _ => None
      end
    | [_; _; _; _] => Some (ctext "fail:a message of an honest session was not accepted by its recipient")
    | _ => None
    end
  else None.
