(* The entry point of an extracted model: one CBOR request in, one CBOR answer out.  Each property
   gets its own extraction (Extract/Ext_Cxx.v) chaining only the command sets it uses, so that a
   model that no longer builds affects only the properties that depend on it. *)
From Isomdl Require Import Lib.Bytes Lib.Cbor.
Open Scope N_scope.
Local Open Scope string_scope.

Definition api_t := bytes -> list cbor -> option cbor.

Fixpoint chain (apis : list api_t) (cmd : bytes) (args : list cbor) : option cbor :=
  match apis with
  | [] => None
  | a :: r => match a cmd args with Some x => Some x | None => chain r cmd args end
  end.

Definition api_with (apis : list api_t) (req : cbor) : cbor :=
  match req with
  | CArray (CText cmd :: args) =>
    match chain apis cmd args with
    | Some r => r
    | None => CArray [ctext "error"; ctext "unknown command or bad arguments"; CText cmd]
    end
  | _ => CArray [ctext "error"; ctext "request is not [cmd, args...]"]
  end.

Definition dispatch_with (apis : list api_t) (input : bytes) : bytes :=
  match decode_all input with
  | Some req => encode (api_with apis req)
  | None => encode (CArray [ctext "error"; ctext "request is not a single CBOR item"])
  end.
