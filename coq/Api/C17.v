(* runner commands for C17 *)
From Isomdl Require Import Lib.Bytes Lib.Cbor Lib.Hmac Model.Cose Spec.CoseRfc.
Open Scope N_scope.
Local Open Scope string_scope.

Definition opt_bytes (c : cbor) : option (option bytes) :=
  match c with CNull => Some None | CBytes b => Some (Some b) | _ => None end.

Definition ctx_of (mac : bool) : bytes := if mac then ctx_mac0 else ctx_sign1.
Definition tag_of (mac : bool) : N := if mac then tag_mac0 else tag_sign1.

Definition vres_code (r : vres) : N :=
  match r with
  | VSuccess => 0 | VFailAlg => 1 | VFailSig => 2 | VErrNoPayload => 3 | VErrDoublePayload => 4 | VErrMalformedSig => 5
  end.

Definition obind_dec (enc : bytes) (tag : N) : option cose1 :=
  match decode_first enc with Some v => cose1_of_cbor tag v | None => None end.

Definition z_of_cbor (c : cbor) : option Z := z_of_int_cbor c.

Definition api_c17 (cmd : bytes) (args : list cbor) : option cbor :=
  if bytes_eqb cmd (bytes_of_string "c17.prepare") then
    (* mac?, encoded COSE value (payload attached or nil), detached, aad -> [0, tbs, encoding after finalize with sig] | [1, err] *)
    match args with
    | [CBool mac; CBytes enc; det; aad; CBytes sg] =>
      match obind_dec enc (tag_of mac), opt_bytes det, opt_bytes aad with
      | Some c, Some d, Some a =>
        Some (match prepare (ctx_of mac) c d a with
              | POk tbs => CArray [CUInt 0; CBytes tbs; CBytes (encode (cose1_to_cbor (tag_of mac) (finalize c sg)))]
              | PErr DoublePayload => CArray [CUInt 1; CUInt 1]
              | PErr NoPayload => CArray [CUInt 1; CUInt 2]
              end)
      | _, _, _ => Some (CArray [CUInt 9])
      end
    | _ => None
    end
  else if bytes_eqb cmd (bytes_of_string "c17.tbs") then
    match args with
    | [CBool mac; CBytes enc; det; aad] =>
      match obind_dec enc (tag_of mac), opt_bytes det, opt_bytes aad with
      | Some c, Some d, Some a =>
        Some (match prepare (ctx_of mac) c d a with POk tbs => CBytes tbs | PErr _ => CNull end)
      | _, _, _ => Some (CArray [CUInt 9])
      end
    | _ => None
    end
  else if bytes_eqb cmd (bytes_of_string "c17.verify") then
    (* mac?, encoded COSE value, detached, aad, verifier alg, [sig parses?, oracle says tbs/sig authentic?] or hmac key *)
    match args with
    | [CBool mac; CBytes enc; det; aad; valg; oracle] =>
      match obind_dec enc (tag_of mac), opt_bytes det, opt_bytes aad, z_of_cbor valg with
      | Some c, Some d, Some a, Some za =>
        let v := match oracle with
                 | CArray [CBool parses; CBool ok] => {| v_alg := za; v_parse := fun _ => parses; v_check := fun _ _ => ok |}
                 | CBytes key => hmac_verifier key
                 | _ => {| v_alg := za; v_parse := fun _ => false; v_check := fun _ _ => false |}
                 end in
        Some (CUInt (vres_code (verify (ctx_of mac) v c d a)))
      | _, _, _, _ => Some (CUInt 9)
      end
    | _ => None
    end
  else if bytes_eqb cmd (bytes_of_string "c17.spec_tbs") then
    (* mac?, protected bytes, aad, payload, observed tbs *)
    match args with
    | [CBool mac; CBytes p; CBytes a; CBytes pl; CBytes obs] =>
      Some (if bytes_eqb obs (if mac then rfc_tbs_mac0 p a pl else rfc_tbs_sign1 p a pl) then ctext "ok"
            else ctext "fail:to-be-signed bytes are not the RFC 8152 structure")
    | [_; _; _; _; _] => Some (ctext "fail:no to-be-signed bytes offered")
    | _ => None
    end
  else if bytes_eqb cmd (bytes_of_string "c17.spec_finalized") then
    (* supplied signature / tag, observed [0, tbs, encoding after finalize] : the fourth member IS the supplied value *)
    match args with
    | [CBytes sg; CArray [CUInt 0; _; CBytes enc]] =>
      Some (match option_map (fun v => match v with CTag _ x => x | x => x end) (decode_first enc) with
            | Some (CArray [_; _; _; CBytes got]) =>
              if bytes_eqb got sg then ctext "ok" else ctext "fail:finalizing did not insert the supplied signature unchanged"
            | _ => ctext "fail:the finalized value is not a COSE_Sign1 / COSE_Mac0 array"
            end)
    | [_; _] => Some (ctext "ok")
    | _ => None
    end
  else if bytes_eqb cmd (bytes_of_string "c17.spec_verify") then
    (* expected-by-the-RFC inputs: [attached?, detached?, alg relation (0 absent, 1 equal, 2 different), authentic?, sig parses?],
       observed verification class *)
    match args with
    | [CArray [att; det; CUInt rel; CBool authentic; CBool parses]; CUInt obs] =>
      match opt_bytes att, opt_bytes det with
      | Some a, Some d =>
        let one := match exactly_one a d with Some _ => true | None => false end in
        let should := one && negb (rel =? 2) && authentic && parses in
        Some (if should then (if obs =? 0 then ctext "ok" else ctext "fail:authentic signature over the right structure refused")
              else if obs =? 0 then
                (if negb one then ctext "fail:verified without exactly one of attached and detached payload"
                 else if rel =? 2 then ctext "fail:protected algorithm differs from the verifier's but verification succeeded"
                 else ctext "fail:verification succeeded for a signature that is not authentic for this structure and key")
              else ctext "ok")
      | _, _ => None
      end
    | _ => None
    end
  else None.
