(* runner commands for C15 *)
From Isomdl Require Import Lib.Bytes Lib.Cbor.
Open Scope N_scope.
Local Open Scope string_scope.

Definition api_c15 (cmd : bytes) (args : list cbor) : option cbor :=
  if bytes_eqb cmd (bytes_of_string "c15.spec") then
    match args with
    | [_; CUInt 0] => Some (ctext "ok")
    | [_; CArray (CUInt 1 :: _)] => Some (ctext "fail:an entry point panicked on untrusted input")
    | [_; CArray (CUInt 2 :: _)] => Some (ctext "fail:an entry point did not return within the time bound")
    | _ => Some (ctext "fail:unexpected observation")
    end
  else None.
