(* runner command shared by several properties' harnesses: the MODEL as generator of third-party encodings.
     loose.encode [tape, value, mode] -> bytes
   one of the valid CBOR encodings of `value` (head widths, indefinite framing, chunking chosen by the tape;
   Lib/CborLoose.encode_with, proved inverted by the decoder for every choice tree: C10_decode_encode_with).
   mode 0: every choice free; 1: map keys definite-length; 2: every text string definite-length. *)
From Isomdl Require Import Lib.Bytes Lib.Cbor Lib.CborLoose.
Open Scope N_scope.

Fixpoint tape_of_list (l : list cbor) : option (list N) :=
  match l with
  | [] => Some []
  | CUInt n :: r => match tape_of_list r with Some r' => Some (n :: r') | None => None end
  | _ => None
  end.

Definition api_loose (cmd : bytes) (args : list cbor) : option cbor :=
  if bytes_eqb cmd (bytes_of_string "loose.encode"%string) then
    match args with
    | [CArray tp; v; CUInt mode] =>
      match tape_of_list tp with
      | Some tape =>
        let c := fst (choices_of v tape) in
        Some (CBytes (encode_with (if mode =? 0 then c else if mode =? 1 then keys_definite_choices v c
                                   else texts_definite_choices v c) v))
      | None => None
      end
    | _ => None
    end
  else None.
