(* runner commands for the session machines (C06, C07, C13, C14) and the IV construction *)
From Isomdl Require Import Lib.Bytes Lib.Cbor Model.Iv Model.Session Spec.IsoIv Spec.DeviceDiagram.
Open Scope N_scope.
Local Open Scope string_scope.

Definition s (x : String.string) : bytes := bytes_of_string x.

(* ---------- decoding of requests ---------- *)

Fixpoint sdocs_of (l : list cbor) : option (list (N * bytes)) :=
  match l with
  | [] => Some []
  | CArray [CUInt id; CBytes b] :: r => match sdocs_of r with Some r' => Some ((id, b) :: r') | None => None end
  | _ => None
  end.

Definition plain_of (c : cbor) : option plain :=
  match c with
  | CArray [CUInt 0; CUInt id] => Some (PRequest id)
  | CArray [CUInt 1] => Some PNotCbor
  | CArray [CUInt 2] => Some PNotRequest
  | CArray [CUInt 3; CUInt st; CArray docs; CUInt errs] =>
    match sdocs_of docs with
    | Some d => Some (PResponse {| rs_status := st; rs_docs := d; rs_doc_errors := errs |})
    | None => None
    end
  | CArray [CUInt 4] => Some PBadResponse
  | _ => None
  end.

Definition cipher_of (c : cbor) : option cipher :=
  match c with
  | CArray [CUInt 0] => Some Junk
  | CArray [CUInt 1; CUInt k; CBytes iv; p] => match plain_of p with Some p' => Some (Enc k iv p') | None => None end
  | _ => None
  end.

Definition wire_of (c : cbor) : option wire :=
  match c with
  | CArray [CUInt 0] => Some WGarbage
  | CArray [CUInt 1] => Some WNoData
  | CArray [CUInt 2; x] => match cipher_of x with Some x' => Some (WData x') | None => None end
  | _ => None
  end.

Definition op_of (c : cbor) : option op :=
  match c with
  | CArray [CUInt 0; CUInt id] => Some (ONewRequest id)
  | CArray [CUInt 1; w] => option_map OHandleRequest (wire_of w)
  | CArray [CUInt 2; CArray docs; CUInt errs] => option_map (fun d => OPrepare d errs) (sdocs_of docs)
  | CArray [CUInt 3] => Some ONextPayload
  | CArray [CUInt 4; CBytes sg] => Some (OSubmit sg)
  | CArray [CUInt 5] => Some OReady
  | CArray [CUInt 6] => Some ORetrieve
  | CArray [CUInt 7; w] => option_map OHandleResponse (wire_of w)
  | CArray [CUInt 8] => Some ORestoreDevice
  | CArray [CUInt 9] => Some ORestoreReader
  | _ => None
  end.

Fixpoint ops_of (l : list cbor) : option (list op) :=
  match l with
  | [] => Some []
  | c :: r => match op_of c, ops_of r with Some o, Some r' => Some (o :: r') | _, _ => None end
  end.

(* ---------- encoding of answers ---------- *)

Definition cbor_of_sdocs (l : list (N * bytes)) : cbor :=
  CArray (map (fun d => CArray [CUInt (fst d); CBytes (snd d)]) l).

Definition cbor_of_response (r : response) : list cbor :=
  [CUInt (rs_status r); cbor_of_sdocs (rs_docs r); CUInt (rs_doc_errors r)].

Definition cbor_of_plain (p : plain) : cbor :=
  match p with
  | PRequest id => CArray [CUInt 0; CUInt id]
  | PNotCbor => CArray [CUInt 1]
  | PNotRequest => CArray [CUInt 2]
  | PResponse r => CArray (CUInt 3 :: cbor_of_response r)
  | PBadResponse => CArray [CUInt 4]
  end.

Definition cbor_of_cipher (c : cipher) : cbor :=
  match c with
  | Junk => CArray [CUInt 0]
  | Enc k iv p => CArray [CUInt 1; CUInt k; CBytes iv; cbor_of_plain p]
  end.

Definition cbor_of_wire (w : wire) : cbor :=
  match w with
  | WGarbage => CArray [CUInt 0]
  | WNoData => CArray [CUInt 1]
  | WData c => CArray [CUInt 2; cbor_of_cipher c]
  end.

Definition cbor_of_out (o : out) : cbor :=
  match o with
  | OutWire w => CArray [CUInt 0; cbor_of_wire w]
  | OutReq RoParsingError => CArray [CUInt 1; CUInt 0]
  | OutReq RoDecryptionError => CArray [CUInt 1; CUInt 1]
  | OutReq RoEmpty => CArray [CUInt 1; CUInt 2]
  | OutReq (RoRequest id) => CArray [CUInt 1; CUInt 3; CUInt id]
  | OutResp RsDecodeError => CArray [CUInt 2; CUInt 0]
  | OutResp RsHolderError => CArray [CUInt 2; CUInt 1]
  | OutResp RsDecryptionError => CArray [CUInt 2; CUInt 2]
  | OutResp RsPlainDecodeError => CArray [CUInt 2; CUInt 3]
  | OutResp (RsResponse r) => CArray [CUInt 2; CUInt 4; CBool (match rs_docs r with [] => false | _ => true end)]
  | OutPayload None => CArray [CUInt 3; CNull]
  | OutPayload (Some (id, p)) => CArray [CUInt 3; CArray [CUInt id; CBytes p]]
  | OutBool b => CArray [CUInt 4; CBool b]
  | OutRetrieved None => CArray [CUInt 5; CNull]
  | OutRetrieved (Some w) => CArray [CUInt 5; cbor_of_wire w]
  | OutUnit => CArray [CUInt 6]
  end.

Definition role_code (r : role) : N := match r with Reader => 0 | Device => 1 end.
Definition role_of_code (n : N) : role := if n =? 0 then Reader else Device.

Definition cbor_of_emission (e : emission) : cbor :=
  CArray [CUInt (role_code (em_role e)); CUInt (em_key e); CBytes (em_iv e)].

Definition dstate_code (st : dstate) : cbor :=
  match st with
  | Awaiting => CArray [CUInt 0]
  | Signing p => CArray [CUInt 1; CUInt (N.of_nat (length (pr_prepared p))); CUInt (N.of_nat (length (pr_signed p)))]
  | Ready _ => CArray [CUInt 2]
  end.

Definition cbor_of_sys (x : sys) : cbor :=
  CArray [CUInt (d_send (s_dev x)); CUInt (d_recv (s_dev x)); dstate_code (d_state (s_dev x));
          CUInt (r_send (s_rdr x)); CUInt (r_recv (s_rdr x))].

(* run with the state after every step (the harness compares counters and state variant per step) *)
Fixpoint run_trace (ops : list op) (x : sys) : list cbor :=
  match ops with
  | [] => []
  | o :: rest =>
    let '(x', ou, em) := step x o in
    CArray [cbor_of_out ou; CArray (map cbor_of_emission em); cbor_of_sys x'] :: run_trace rest x'
  end.

(* ---------- executable specification of C07 on observed emissions ---------- *)

(* emissions as observed on the implementation: (role, iv) in emission order *)
Fixpoint obs_emissions_of (l : list cbor) : option (list (role * bytes)) :=
  match l with
  | [] => Some []
  | CArray [CUInt r; CBytes iv] :: rest =>
    match obs_emissions_of rest with Some x => Some ((role_of_code r, iv) :: x) | None => None end
  | _ => None
  end.

(* the n-th emission of each role carries iso_iv role n (n from 1) *)
Fixpoint c07_nth_ok (nr nd : N) (l : list (role * bytes)) : bool :=
  match l with
  | [] => true
  | (Reader, iv) :: rest => bytes_eqb iv (iso_iv Reader (nr + 1)) && c07_nth_ok (nr + 1) nd rest
  | (Device, iv) :: rest => bytes_eqb iv (iso_iv Device (nd + 1)) && c07_nth_ok nr (nd + 1) rest
  end.

Fixpoint nodup_b (l : list bytes) : bool :=
  match l with
  | [] => true
  | x :: r => negb (existsb (bytes_eqb x) r) && nodup_b r
  end.

(* ---------- executable specification of C13: observations against the reference diagram ---------- *)

Definition delivered_of (w : wire) (o : cbor) : option delivered :=
  match o with
  (* "parsing error": only a frame WITHOUT data (or one that is no SessionData) is answered so; a frame that
     carries data is either undecryptable (1,1), an authentic non-request (1,2) or a request (1,3) *)
  | CArray [CUInt 1; CUInt 0] => match w with WData _ => None | _ => Some DlNothing end
  | CArray [CUInt 1; CUInt 1] => Some DlNothing
  | CArray [CUInt 1; CUInt 2] =>
    match w with
    | WData (Enc _ _ PNotCbor) => Some DlNotCbor
    | WData (Enc _ _ (PRequest _)) => None
    | WData (Enc _ _ _) => Some DlNotRequest
    | _ => None
    end
  | CArray [CUInt 1; CUInt 3; CUInt id] => Some (DlRequest id)
  | _ => None
  end.

Definition rstate_code (s : rstate) : cbor :=
  match s with
  | RAwaiting => CArray [CUInt 0]
  | RSigning u sd _ _ => CArray [CUInt 1; CUInt (N.of_nat (length u)); CUInt (N.of_nat (length sd))]
  | RReady _ => CArray [CUInt 2]
  end.

Definition obs_state (o : cbor) : option cbor :=
  match o with CArray [_; _; CArray [_; _; st; _; _]] => Some st | _ => None end.
Definition obs_out (o : cbor) : option cbor :=
  match o with CArray [x; _; _] => Some x | _ => None end.

Definition response_of_wire_cbor (c : cbor) : option cbor :=
  match c with
  | CArray [CUInt 2; CArray [CUInt 1; _; _; CArray (CUInt 3 :: r)]] => Some (CArray r)
  | _ => None
  end.

(* returns None when every observation agrees with the reference machine, else the reason *)
Fixpoint c13_check (ops : list op) (obs : list cbor) (st : rstate) : option String.string :=
  match ops, obs with
  | [], [] => None
  | o :: ops', ob :: obs' =>
    match obs_out ob, obs_state ob with
    | Some out, Some stc =>
      let continue (st' : rstate) :=
          if cbor_eqb stc (rstate_code st') then c13_check ops' obs' st'
          else Some "device state differs from the documented diagram" in
      match o with
      | OHandleRequest w =>
        match delivered_of w out with
        | None => Some "request outcome does not fit the delivered message"
        | Some d => continue (fst (rstep st (RHandle d)))
        end
      | OPrepare docs errs => continue (fst (rstep st (RPrepare docs errs)))
      | ONextPayload =>
        let '(st', ro) := rstep st RNextPayload in
        let expected := match ro with
                        | ROPayload None => CArray [CUInt 3; CNull]
                        | ROPayload (Some (id, p)) => CArray [CUInt 3; CArray [CUInt id; CBytes p]]
                        | _ => CNull end in
        if cbor_eqb out expected then continue st' else Some "signature payload offered (or withheld) against the diagram"
      | OSubmit sg => continue (fst (rstep st (RSubmit sg)))
      | OReady =>
        let '(st', ro) := rstep st RReadyQ in
        let expected := match ro with ROBool b => CArray [CUInt 4; CBool b] | _ => CNull end in
        if cbor_eqb out expected then continue st' else Some "response_ready differs from the diagram"
      | ORetrieve =>
        let '(st', ro) := rstep st RRetrieve in
        match ro, out with
        | RORetrieved None, CArray [CUInt 5; CNull] => continue st'
        | RORetrieved (Some r), CArray [CUInt 5; w] =>
          match response_of_wire_cbor w with
          | Some rc => if cbor_eqb rc (CArray (cbor_of_response r)) then continue st'
                       else Some "retrieved response differs from the prepared one"
          | None => Some "retrieved message is not an encrypted response"
          end
        | RORetrieved None, _ => Some "a response was handed out although none was ready"
        | _, _ => Some "no response handed out although one was ready"
        end
      | _ => continue st
      end
    | _, _ => Some "malformed observation"
    end
  | _, _ => Some "observation list length differs from operation list"
  end.

(* ---------- executable specification of C06 on observed traces ---------- *)

Definition obs_sys (o : cbor) : option cbor :=
  match o with CArray [_; _; sy] => Some sy | _ => None end.
Definition obs_ems (o : cbor) : option cbor :=
  match o with CArray [_; e; _] => Some e | _ => None end.

(* device part of the system view that a rejected delivery must leave untouched: send counter + state *)
Definition dev_untouched (before after : cbor) : bool :=
  match before, after with
  | CArray [ds; _; st; _; _], CArray [ds'; _; st'; _; _] => cbor_eqb ds ds' && cbor_eqb st st'
  | _, _ => false
  end.
Definition rdr_untouched (before after : cbor) : bool :=
  match before, after with
  | CArray [_; _; _; rs; _], CArray [_; _; _; rs'; _] => cbor_eqb rs rs'
  | _, _ => false
  end.

Definition is_next (k : N) (r : role) (n : N) (w : wire) : bool :=
  match w with
  | WData (Enc k' nonce _) => (k =? k') && bytes_eqb nonce (iso_iv r n)
  | _ => false
  end.

(* kr, kd: key ids of this session; nd / nr: decryption attempts made so far by device / reader *)
Fixpoint c06_check (kr kd : N) (ops : list op) (obs : list cbor) (prev : cbor) (nd nr : N) : option String.string :=
  match ops, obs with
  | [], [] => None
  | o :: ops', ob :: obs' =>
    match obs_out ob, obs_sys ob, obs_ems ob with
    | Some out, Some sy, Some ems =>
      match o with
      | OHandleRequest (WData c) =>
        if is_next kr Reader (nd + 1) (WData c) then
          if cbor_eqb out (CArray [CUInt 1; CUInt 1]) then Some "the peer's next message in sequence was refused"
          else c06_check kr kd ops' obs' sy (nd + 1) nr
        else
          if negb (cbor_eqb out (CArray [CUInt 1; CUInt 1])) then Some "device acted on a message that is not the peer's next message under the session key"
          else if negb (dev_untouched prev sy) then Some "a rejected message changed the device state or made it prepare a response"
          else if negb (cbor_eqb ems (CArray [])) then Some "a rejected message made the device encrypt"
          else c06_check kr kd ops' obs' sy (nd + 1) nr
      | OHandleRequest _ =>
        if negb (cbor_eqb out (CArray [CUInt 1; CUInt 0])) then Some "undecodable session data not reported as a parsing error"
        else if negb (dev_untouched prev sy) then Some "undecodable session data changed the device state"
        else c06_check kr kd ops' obs' sy nd nr
      | OHandleResponse (WData c) =>
        if is_next kd Device (nr + 1) (WData c) then
          if cbor_eqb out (CArray [CUInt 2; CUInt 2]) then Some "the peer's next message in sequence was refused"
          else c06_check kr kd ops' obs' sy nd (nr + 1)
        else
          if negb (cbor_eqb out (CArray [CUInt 2; CUInt 2])) then Some "reader acted on a message that is not the peer's next message under the session key"
          else if negb (rdr_untouched prev sy) then Some "a rejected message changed the reader's send counter"
          else c06_check kr kd ops' obs' sy nd (nr + 1)
      | OHandleResponse _ =>
        match out with
        | CArray [CUInt 2; CUInt 0] | CArray [CUInt 2; CUInt 1] => c06_check kr kd ops' obs' sy nd nr
        | _ => Some "undecodable session data not reported as an error by the reader"
        end
      | _ => c06_check kr kd ops' obs' sy nd nr
      end
    | _, _, _ => Some "malformed observation"
    end
  | _, _ => Some "observation list length differs from operation list"
  end.

Definition api_session (cmd : bytes) (args : list cbor) : option cbor :=
  if bytes_eqb cmd (s "c07.iv") then
    match args with
    | [CUInt r; CUInt n] => Some (CBytes (iv (role_of_code r) n))
    | _ => None
    end
  else if bytes_eqb cmd (s "c07.next_iv") then
    match args with
    | [CUInt r; CUInt c] => let '(c', v) := next_iv (role_of_code r) c in Some (CArray [CUInt c'; CBytes v])
    | _ => None
    end
  else if bytes_eqb cmd (s "c07.spec_next_iv") then
    (* args: role, counter before the call (< 2^32 - 1), observed [counter after, iv] *)
    match args with
    | [CUInt r; CUInt c; CArray [CUInt c'; CBytes v]] =>
      Some (if negb (c + 1 <? two32) then ctext "n/a:counter wraps"
            else if (c' =? c + 1) && bytes_eqb v (iso_iv (role_of_code r) (c + 1)) then ctext "ok"
            else ctext "fail:IV is not identifier || big-endian (counter + 1)")
    | _ => Some (ctext "fail:unexpected observation shape")
    end
  else if bytes_eqb cmd (s "sess.run") then
    match args with
    | [CUInt kr; CUInt kd; CArray ops] =>
      match ops_of ops with
      | Some o => Some (CArray (run_trace o (fresh kr kd)))
      | None => None
      end
    | _ => None
    end
  else if bytes_eqb cmd (s "c13.spec") then
    (* args: emissions (unused), model ops incl. the 2 establishment steps, observations (without them) *)
    match args with
    | [_; CArray ops; CArray obs] =>
      match ops_of ops with
      | Some (_ :: _ :: o) =>
        Some (match c13_check o obs RAwaiting with
              | None => ctext "ok"
              | Some why => CText (s "fail:" ++ bytes_of_string why)
              end)
      | _ => None
      end
    | _ => None
    end
  else if bytes_eqb cmd (s "c06.spec") then
    match args with
    | [_; CArray ops; CArray obs] =>
      match ops_of ops with
      | Some (_ :: _ :: o) =>
        Some (match c06_check 0 1 o obs (CArray [CUInt 0; CUInt 1; CArray [CUInt 0]; CUInt 1; CUInt 0]) 1 0 with
              | None => ctext "ok"
              | Some why => CText (s "fail:" ++ bytes_of_string why)
              end)
      | _ => None
      end
    | _ => None
    end
  (* a session far into its life: the receive counter stands at `ctr`, a message under the right key whose IV carries
     counter `crafted` arrives.  args: role of the SENDER (0 reader, 1 device), ctr, crafted [, accepted?] *)
  else if bytes_eqb cmd (s "c06.far") then
    match args with
    | [CUInt r; CUInt ctr; CUInt crafted] =>
      Some (CBool (bytes_eqb (snd (next_iv (role_of_code r) ctr)) (iv (role_of_code r) crafted)))
    | _ => None
    end
  (* observed [accepted by the session whose key made the message, accepted by a session with ANOTHER key] *)
  else if bytes_eqb cmd (s "c06.spec_other_key") then
    match args with
    | [CArray [CBool own; CBool other]] =>
      Some (if other then ctext "fail:a message encrypted under other keys was accepted"
            else if negb own then ctext "fail:the peer's next message under the session key was refused"
            else ctext "ok")
    | _ => None
    end
  else if bytes_eqb cmd (s "c06.spec_far") then
    match args with
    | [CUInt r; CUInt ctr; CUInt crafted; CBool accepted] =>
      Some (if Bool.eqb accepted (crafted =? ctr + 1) then ctext "ok"
            else if accepted then ctext "fail:a message that is not the next in sequence (its counter is not the receive counter + 1) was accepted"
            else ctext "fail:the next message in sequence was refused")
    | _ => None
    end
  (* sessions established in one process: [[engagement index, SKReader, EReaderKeyBytes] ..]: no two share a session key or
     an ephemeral reader key (each session's first message uses IV reader || 1: a shared key is a shared (key, IV) pair) *)
  else if bytes_eqb cmd (s "c07.spec_fresh_keys") then
    match args with
    | [CArray l] =>
      let keys := map (fun x => match x with CArray [_; CBytes k; _] => k | _ => [] end) l in
      let erks := map (fun x => match x with CArray [_; _; CBytes k] => k | _ => [] end) l in
      Some (if negb (nodup_b keys) then ctext "fail:two sessions share a session key: their first messages share key and IV"
            else if negb (nodup_b erks) then ctext "fail:two sessions were given the same ephemeral reader key"
            else if (N.of_nat (length l) <? 2) then ctext "fail:sessions were not established"
            else ctext "ok")
    | _ => None
    end
  else if bytes_eqb cmd (s "c07.spec_emissions") then
    match args with
    | CArray ems :: _ =>
      match obs_emissions_of ems with
      | None => Some (ctext "fail:an emitted ciphertext opens under no ISO-shaped IV")
      | Some l =>
        Some (if negb (c07_nth_ok 0 0 l) then ctext "fail:n-th message of a role does not use identifier || be32 n"
              else if negb (nodup_b (map snd l)) then ctext "fail:IV reused"
              else ctext "ok")
      end
    | _ => None
    end
  else None.
