(* runner commands for C10.

   model commands (answer = the model's observation, compared with the implementation's):
     c10.encode_with   [tape, value, keys_definite?]      -> bytes      the MODEL is the generator of encodings
     c10.tag24_bytes   [outer]                            -> [0, inner, re-emitted] | [1]
     c10.tag24_value   [outer]                            -> [0, inner, re-emitted, encode(view)] | [1]
     c10.tag24_item    [outer]                            -> [0, inner, re-emitted, digest, random, id, encode(value)] | [1]
     c10.issuer_signed [bytes]                            -> [0, re-encoded, components] | [1] | [2 = header outside the model]
     c10.mdoc_doc      [bytes]                            -> [0, held items, auth components] | [1] | [2]
     c10.doc_cycle     [stringified]                      -> [0, stringified again, held items, auth components] | [1]
   spec commands (last argument = the implementation's observation):
     c10.spec_tag24    [in_domain?, inner received, obs]  obs as tag24_bytes (longer arrays allowed)
     c10.spec_view     [inner, obs = encode(view) | null]
     c10.spec_item     [in_domain?, inner, obs = [digest, random, id, encode(value)] | null]
     c10.spec_same     [expected components, obs]
     c10.spec_subset   [expected components, obs]
     c10.spec_storage  [crafted items per namespace, auth components, obs = [0, held, auth] | [1]]
     c10.spec_valid    [obs = reader reported issuer authentication Valid?]  *)
From Isomdl Require Import Lib.Bytes Lib.Utf8 Lib.Cbor Lib.CborLoose Lib.Base64 Model.Cose Model.Tag24.
Open Scope N_scope.
Local Open Scope string_scope.

Definition uint_of (c : cbor) : option N := match c with CUInt n => Some n | _ => None end.
Definition tape_of (c : cbor) : option (list N) :=
  match c with CArray l => all_some uint_of l | _ => None end.

Definition obytes (o : option bytes) : cbor := match o with Some b => CBytes b | None => CNull end.
Definition ocbor_enc (o : option cbor) : cbor := match o with Some v => CBytes (encode v) | None => CNull end.

Definition nss_obs (m : nss) : cbor :=
  CArray (map (fun kv => CArray [CText (fst kv); CArray (map CBytes (snd kv))]) m).
Definition dns_obs (m : dns) : cbor :=
  CArray (map (fun kv => CArray [CText (fst kv);
                                 CArray (map (fun e => CArray [CText (fst e); CBytes (snd e)]) (snd kv))]) m).
(* protected, payload, signature, x5chain value (encoded) *)
Definition auth_obs (c : cose1) : cbor :=
  CArray [CBytes (c_protected c); obytes (c_payload c); CBytes (c_sig c); ocbor_enc (x5chain_value c)].

Definition fail (m : String.string) : cbor := CText (bytes_of_string "fail:" ++ bytes_of_string m).
Definition ok : cbor := ctext "ok".

(* ---------- executable specification, written from the property text ---------- *)

(* "re-emitted with exactly the embedded bytes received": D8 18, shortest byte-string head, the bytes *)
Definition spec_emitted (inner : bytes) : bytes := [216; 24] ++ head 2 (blen inner) ++ inner.

(* the view of an item per the data model: the decoded map's four members, looked up by text key *)
(* tags in front of the map (e.g. the self-described-CBOR tag 55799) do not change which item the bytes hold *)
Fixpoint untag (c : cbor) : cbor := match c with CTag _ x => untag x | _ => c end.
Definition spec_item_view (inner : bytes) : option cbor :=
  match option_map untag (decode_first inner) with
  | Some (CMap kvs) =>
    match map_get (tx "digestID") kvs, map_get (tx "random") kvs,
          map_get (tx "elementIdentifier") kvs, map_get (tx "elementValue") kvs with
    | Some d, Some r, Some i, Some v => Some (CArray [d; r; i; CBytes (encode v)])
    | _, _, _, _ => None
    end
  | _ => None
  end.

(* ---------- known-finding classifiers ---------- *)

(* the struct reader with indefinite-length text keys tolerated: tells "refused only because a key
   has indefinite length" apart from every other refusal *)
Fixpoint read_key_lenient (fuel : nat) (bs : bytes) : dres (bytes * bytes) :=
  match fuel with
  | O => DFuel
  | S f =>
    '(major, _, a, r) <- read_head bs ;;
    match major, a with
    | 6, HVal _ => read_key_lenient f r
    | 3, HVal n => '(k, r') <- of_opt (split_at n r) ;; if utf8_valid k then DOk (k, r') else DErr
    | 3, HIndef => decode_chunks f 3 r
    | 2, HVal n => '(k, r') <- of_opt (split_at n r) ;; DOk (k, r')
    | _, _ => DErr
    end
  end.
Fixpoint entries_n_lenient (fuel : nat) (n : N) (bs : bytes) : dres (list (bytes * cbor) * bytes) :=
  match fuel with
  | O => DFuel
  | S f =>
    if n =? 0 then DOk ([], bs) else
    '(k, r) <- read_key_lenient f bs ;; '(v, r') <- decode f r ;;
    '(es, r'') <- entries_n_lenient f (n - 1) r' ;; DOk ((k, v) :: es, r'')
  end.
Fixpoint entries_until_lenient (fuel : nat) (bs : bytes) : dres (list (bytes * cbor) * bytes) :=
  match fuel with
  | O => DFuel
  | S f =>
    match bs with
    | 255 :: r => DOk ([], r)
    | _ => '(k, r) <- read_key_lenient f bs ;; '(v, r') <- decode f r ;;
           '(es, r'') <- entries_until_lenient f r' ;; DOk ((k, v) :: es, r'')
    end
  end.
(* tags in front of the struct map are skipped, as the struct reader does *)
Fixpoint skip_tags (fuel : nat) (bs : bytes) : bytes :=
  match fuel with
  | O => bs
  | S f => match read_head bs with DOk (6, _, HVal _, r) => skip_tags f r | _ => bs end
  end.
Definition read_item_lenient (bs0 : bytes) : option item :=
  let bs := skip_tags (fuel_for bs0) bs0 in
  match read_head bs with
  | DOk (5, _, HVal n, r) =>
    match entries_n_lenient (fuel_for bs) n r with DOk (es, _) => item_of_entries es | _ => None end
  | DOk (5, _, HIndef, r) =>
    match entries_until_lenient (fuel_for bs) r with DOk (es, _) => item_of_entries es | _ => None end
  | _ => None
  end.
Definition known_indef_key (inner : bytes) : bool :=
  match read_item inner, read_item_lenient inner with None, Some _ => true | _, _ => false end.

(* the head (after tags) of the value stored under a key of the top-level map, as written *)
Fixpoint value_head (fuel : nat) (bs : bytes) : dres (N * harg) :=
  match fuel with
  | O => DFuel
  | S f => '(major, _, a, r) <- read_head bs ;;
           match major, a with 6, HVal _ => value_head f r | _, _ => DOk (major, a) end
  end.
Fixpoint heads_n (fuel : nat) (n : N) (bs : bytes) : dres (list (bytes * (N * harg))) :=
  match fuel with
  | O => DFuel
  | S f =>
    if n =? 0 then DOk [] else
    '(k, r) <- read_key_lenient f bs ;; h <- value_head f r ;; '(v, r') <- decode f r ;;
    hs <- heads_n f (n - 1) r' ;; DOk ((k, h) :: hs)
  end.
Fixpoint heads_until (fuel : nat) (bs : bytes) : dres (list (bytes * (N * harg))) :=
  match fuel with
  | O => DFuel
  | S f =>
    match bs with
    | 255 :: r => DOk []
    | _ => '(k, r) <- read_key_lenient f bs ;; h <- value_head f r ;; '(v, r') <- decode f r ;;
           hs <- heads_until f r' ;; DOk ((k, h) :: hs)
    end
  end.
Definition top_heads (bs0 : bytes) : list (bytes * (N * harg)) :=
  let bs := skip_tags (fuel_for bs0) bs0 in
  match read_head bs with
  | DOk (5, _, HVal n, r) => match heads_n (fuel_for bs) n r with DOk l => l | _ => [] end
  | DOk (5, _, HIndef, r) => match heads_until (fuel_for bs) r with DOk l => l | _ => [] end
  | _ => []
  end.
(* an MSO whose digestAlgorithm (a serde enum) is written as an indefinite-length text string *)
Definition known_indef_enum (inner : bytes) : bool :=
  existsb (fun e => bytes_eqb (fst e) (bytes_of_string "digestAlgorithm") &&
                    match snd e with (3, HIndef) => true | _ => false end) (top_heads inner).

(* ---------- helpers ---------- *)

Definition item_obs (inner : bytes) (it : item) : list cbor :=
  [z_to_cbor (it_digest it); CBytes (it_random it); CText (it_id it); CBytes (encode (it_value it))].

Definition is_obs (x : issuer_signed) : cbor :=
  CArray [match is_ns x with Some m => nss_obs m | None => CNull end; auth_obs (is_auth x)].

Definition cmp_field (name : String.string) (a b : cbor) (k : cbor) : cbor :=
  if cbor_eqb a b then k else fail name.

(* items of obs (as [[ns, [inner..]]..]) all appear under the same namespace in exp *)
Definition ns_items (c : cbor) : list (cbor * list cbor) :=
  match c with
  | CArray l => flat_map (fun e => match e with CArray [n; CArray items] => [(n, items)] | _ => [] end) l
  | _ => []
  end.
Definition items_under (n : cbor) (m : list (cbor * list cbor)) : list cbor :=
  flat_map (fun e => if cbor_eqb n (fst e) then snd e else []) m.
Definition subset_ns (obs exp : cbor) : bool :=
  forallb (fun e => forallb (fun it => existsb (cbor_eqb it) (items_under (fst e) (ns_items exp))) (snd e)) (ns_items obs).
(* held items as [[ns, [[id, inner]..]]..] -> [[ns, [inner..]]..] *)
Definition strip_ids (c : cbor) : cbor :=
  match c with
  | CArray l => CArray (map (fun e => match e with
                                      | CArray [n; CArray es] =>
                                        CArray [n; CArray (map (fun x => match x with CArray [_; b] => b | y => y end) es)]
                                      | y => y end) l)
  | y => y
  end.
Definition has_dup_ids (crafted : cbor) : bool :=
  existsb (fun e => negb (nodupb (map (fun it => match it with
                                               | CBytes inner => match read_item inner with Some i => CText (it_id i) | None => it end
                                               | y => y end) (snd e)))) (ns_items crafted).

Definition api_c10 (cmd : bytes) (args : list cbor) : option cbor :=
  if bytes_eqb cmd (bytes_of_string "c10.encode_with") then
    match args with
    | [tp; v; CUInt mode] =>
      (* mode 0: every choice free; 1: map keys definite-length; 2: all text strings definite-length *)
      match tape_of tp with
      | Some tape =>
        let c := fst (choices_of v tape) in
        Some (CBytes (encode_with (if mode =? 0 then c else if mode =? 1 then keys_definite_choices v c
                                   else texts_definite_choices v c) v))
      | None => None
      end
    | _ => None
    end
  else if bytes_eqb cmd (bytes_of_string "c10.tag24_bytes") then
    match args with
    | [CBytes outer] =>
      Some (match tag24_decode outer with
            | Some inner => CArray [CUInt 0; CBytes inner; CBytes (tag24_encode inner)]
            | None => CArray [CUInt 1]
            end)
    | _ => None
    end
  else if bytes_eqb cmd (bytes_of_string "c10.tag24_value") then
    match args with
    | [CBytes outer] =>
      Some (match tag24_decode_as view outer with
            | Some (inner, v) => CArray [CUInt 0; CBytes inner; CBytes (tag24_encode inner); CBytes (encode v)]
            | None => CArray [CUInt 1]
            end)
    | _ => None
    end
  else if bytes_eqb cmd (bytes_of_string "c10.tag24_item") then
    match args with
    | [CBytes outer] =>
      Some (match tag24_decode_as read_item outer with
            | Some (inner, it) => CArray (CUInt 0 :: CBytes inner :: CBytes (tag24_encode inner) :: item_obs inner it)
            | None => CArray [CUInt 1]
            end)
    | [CBytes outer; CBool false] =>
      (* without the re-encoded elementValue (inputs that may hold floats of non-minimal width, which
         ciborium shrinks when the VIEW is re-encoded; the embedded bytes are kept as they are) *)
      Some (match tag24_decode_as read_item outer with
            | Some (inner, it) => CArray [CUInt 0; CBytes inner; CBytes (tag24_encode inner);
                                          z_to_cbor (it_digest it); CBytes (it_random it); CText (it_id it)]
            | None => CArray [CUInt 1]
            end)
    | _ => None
    end
  else if bytes_eqb cmd (bytes_of_string "c10.issuer_signed") then
    match args with
    | [CBytes bs] =>
      Some (match is_decode bs with
            | Some x => CArray [CUInt 0; CBytes (is_encode x); is_obs x]
            | None =>
              (* tell "refused" from "COSE header outside the model" *)
              match decode_first bs with
              | Some (CMap kvs) =>
                match req (tx "issuerAuth") kvs with
                | Some a => match sign1_of_cbor a with CUnmodelled => CArray [CUInt 2] | _ => CArray [CUInt 1] end
                | None => CArray [CUInt 1]
                end
              | _ => CArray [CUInt 1]
              end
            end)
    | _ => None
    end
  else if bytes_eqb cmd (bytes_of_string "c10.mdoc_doc") then
    match args with
    | [CBytes bs] =>
      Some (match mdoc_decode bs with
            | Some md => let d := doc_of_mdoc CNull md in CArray [CUInt 0; dns_obs (d_ns d); auth_obs (d_auth d)]
            | None => CArray [CUInt 1]
            end)
    | _ => None
    end
  else if bytes_eqb cmd (bytes_of_string "c10.doc_cycle") then
    match args with
    | [CBytes st] =>
      Some (match doc_parse st with
            | Some d => CArray [CUInt 0; CBytes (doc_stringify d); dns_obs (d_ns d); auth_obs (d_auth d)]
            | None => CArray [CUInt 1]
            end)
    | _ => None
    end
  else if bytes_eqb cmd (bytes_of_string "c10.spec_tag24") then
    match args with
    | [CBool dom; CBytes inner; CArray (CUInt 0 :: CBytes kept :: CBytes reenc :: _)] =>
      Some (if negb (bytes_eqb kept inner) then fail "the embedded bytes kept are not the embedded bytes received"
            else if negb (bytes_eqb reenc (spec_emitted inner))
            then fail "the item is not re-emitted as D8 18, shortest byte-string head, the embedded bytes received"
            else ok)
    | [CBool dom; CBytes inner; CArray [CUInt 1]] =>
      Some (if dom then
              (if known_indef_key inner
               then ctext "known:c10_indefinite_key_refused:an IssuerSignedItem whose map key is an indefinite-length text string is refused"
               else if known_indef_enum inner
               then ctext "known:c10_indefinite_enum_refused:an MSO whose digestAlgorithm is an indefinite-length text string is refused"
               else fail "a valid embedded item was refused")
            else ok)
    | [_; _; _] => Some (fail "unexpected observation")
    | _ => None
    end
  else if bytes_eqb cmd (bytes_of_string "c10.spec_view") then
    match args with
    | [CBytes inner; CBytes obs] =>
      Some (match decode_first inner with
            | Some v => if bytes_eqb (encode v) obs then ok else fail "the typed view is not the decoding of the embedded bytes"
            | None => fail "a view was reported for embedded bytes that do not decode"
            end)
    | [CBytes inner; CNull] => Some ok
    | _ => None
    end
  else if bytes_eqb cmd (bytes_of_string "c10.spec_item") then
    match args with
    | [CBool dom; CBytes inner; CArray [d; r; i; v]] =>
      Some (match spec_item_view inner with
            | Some (CArray [d'; r'; i'; v']) =>
              cmp_field "digestID of the view differs from the embedded bytes" d d'
              (cmp_field "random of the view differs from the embedded bytes" r r'
              (cmp_field "elementIdentifier of the view differs from the embedded bytes" i i'
              (cmp_field "elementValue of the view differs from the embedded bytes" v v' ok)))
            | _ => if dom then fail "a view was reported but the embedded bytes hold no item" else ok
            end)
    | [CBool dom; CBytes inner; CNull] => Some ok
    | _ => None
    end
  else if bytes_eqb cmd (bytes_of_string "c10.spec_same") then
    match args with
    | [CArray [n; CArray [p; pl; sg; x5]]; CArray [n'; CArray [p'; pl'; sg'; x5']]] =>
      Some (cmp_field "item bytes differ from the item bytes put in" n n'
           (cmp_field "issuerAuth protected-header bytes differ" p p'
           (cmp_field "issuerAuth payload (MSO) bytes differ" pl pl'
           (cmp_field "issuerAuth signature bytes differ" sg sg'
           (cmp_field "x5chain certificate bytes differ" x5 x5' ok)))))
    | [_; CArray [CUInt 1]] => Some (fail "a valid issuer-signed structure was refused")
    | [_; _] => Some (fail "unexpected observation")
    | _ => None
    end
  else if bytes_eqb cmd (bytes_of_string "c10.spec_subset") then
    match args with
    | [CArray [n; CArray [p; pl; sg; x5]]; CArray [n'; CArray [p'; pl'; sg'; x5']]] =>
      Some (if negb (subset_ns n' n) then fail "an item in the response is not byte-identical to an issued item of that namespace"
            else cmp_field "issuerAuth protected-header bytes differ" p p'
                (cmp_field "issuerAuth payload (MSO) bytes differ" pl pl'
                (cmp_field "issuerAuth signature bytes differ" sg sg'
                (cmp_field "x5chain certificate bytes differ" x5 x5' ok))))
    | [_; _] => Some (fail "unexpected observation")
    | _ => None
    end
  else if bytes_eqb cmd (bytes_of_string "c10.spec_storage") then
    match args with
    | [crafted; CArray [p; pl; sg; x5]; CArray [CUInt 0; held; CArray [p'; pl'; sg'; x5']]] =>
      let h := strip_ids held in
      Some (if negb (subset_ns h crafted) then fail "a stored item is not byte-identical to an issued item of that namespace"
            else if negb (subset_ns crafted h) then
              (if has_dup_ids crafted
               then ctext "n/a:two issuer-signed items of one namespace share an elementIdentifier (not an encoding choice; From<Mdoc> keeps the last, see C10_storage_complete_refuted)"
               else fail "an issued item is missing from device storage")
            else cmp_field "issuerAuth protected-header bytes differ" p p'
                (cmp_field "issuerAuth payload (MSO) bytes differ" pl pl'
                (cmp_field "issuerAuth signature bytes differ" sg sg'
                (cmp_field "x5chain certificate bytes differ" x5 x5' ok))))
    | [_; _; CArray [CUInt 1]] => Some (fail "a valid Mdoc was refused")
    | [_; _; _] => Some (fail "unexpected observation")
    | _ => None
    end
  else if bytes_eqb cmd (bytes_of_string "c10.spec_valid") then
    (* the reader recomputes every digest over the item bytes it received and verifies the issuer
       signature over (protected, payload) as received: for an authentic crafted document it must say Valid *)
    match args with
    | [CBool true] => Some ok
    | [CBool false] => Some (fail "issuer authentication of an authentic document is not Valid after storage / transfer: digests or signature input changed")
    | [_] => Some (fail "unexpected observation")
    | _ => None
    end
  else None.
