(* runner commands for C18:
     c18.validate <kind> <bytes>     -> "ok" | "fail:<rule>" | "known:<class>:<rule>"
     c18.compose  <what> <components...> -> the encoding of the composed message (bstr) | null *)
From Isomdl Require Import Lib.Bytes Lib.Cbor Model.Cose Spec.Cddl Model.Emit.
Open Scope N_scope.
Local Open Scope string_scope.

Fixpoint string_of_bytes (b : bytes) : String.string :=
  match b with
  | [] => String.EmptyString
  | x :: r => String.String (Ascii.ascii_of_N x) (string_of_bytes r)
  end.

Definition kind_of (k : bytes) : option kind :=
  if bytes_eqb k (bytes_of_string "engagement") then Some KEngagement
  else if bytes_eqb k (bytes_of_string "establishment") then Some KEstablishment
  else if bytes_eqb k (bytes_of_string "session_data") then Some KSessionData
  else if bytes_eqb k (bytes_of_string "device_request") then Some KDeviceRequest
  else if bytes_eqb k (bytes_of_string "device_response") then Some KDeviceResponse
  else if bytes_eqb k (bytes_of_string "mso") then Some KMso
  else if bytes_eqb k (bytes_of_string "issuer_signed") then Some KIssuerSigned
  else if bytes_eqb k (bytes_of_string "cose_key") then Some KCoseKey
  else if bytes_eqb k (bytes_of_string "document") then Some KDocument
  else None.

(* ---------- classes of recorded findings (known_findings.json) ---------- *)

(* F11: an NFC retrieval method whose maximum response data length exceeds 65536 *)
Definition nfc_response_too_long (m : cbor) : bool :=
  match m with
  | CArray [CUInt 1; _; CMap kvs] =>
    match map_get (CUInt 1) kvs with Some (CUInt n) => 65536 <? n | _ => false end
  | _ => false
  end.
Definition known_F11 (v : cbor) : bool :=
  match v with
  | CMap kvs => match map_get (CUInt 2) kvs with Some (CArray ms) => existsb nfc_response_too_long ms | _ => false end
  | _ => false
  end.

(* F12: a deviceMac whose protected alg is a signature algorithm *)
Definition doc_mac_with_sig_alg (d : cbor) : bool :=
  match d with
  | CMap kvs =>
    match map_get (ctext "deviceSigned") kvs with
    | Some (CMap ds) =>
      match map_get (ctext "deviceAuth") ds with
      | Some (CMap da) =>
        match map_get (ctext "deviceMac") da with
        | Some m => match cose1_alg m with Some a => existsb (Z.eqb a) signature_algs | None => false end
        | None => false
        end
      | _ => false
      end
    | _ => false
    end
  | _ => false
  end.
Definition known_F12 (v : cbor) : bool :=
  match v with
  | CMap kvs => match map_get (ctext "documents") kvs with Some (CArray ds) => existsb doc_mac_with_sig_alg ds | _ => false end
  | _ => false
  end.

Definition rule_F11 := "NfcOptions max response data length (1): value out of range".
Definition rule_F12 := "DeviceMac: protected alg is not one the standard admits here".

Definition verdict_text (k : kind) (v : cbor) : cbor :=
  match validator k v with
  | Ok => ctext "ok"
  | Fail r =>
    match k with
    | KEngagement =>
      if String.eqb r rule_F11 && known_F11 v then ctext (String.append "known:F11_nfc_response_length:" r)
      else ctext (String.append "fail:" r)
    | KDeviceResponse =>
      if String.eqb r rule_F12 && known_F12 v then ctext (String.append "known:F12_device_mac_alg:" r)
      else ctext (String.append "fail:" r)
    | _ => ctext (String.append "fail:" r)
    end
  end.

(* ---------- component decoders for c18.compose ---------- *)

Definition opt_of {A} (f : cbor -> option A) (c : cbor) : option (option A) :=
  match c with
  | CNull => Some None
  | _ => match f c with Some a => Some (Some a) | None => None end
  end.

Definition as_bytes (c : cbor) : option bytes := match c with CBytes b => Some b | _ => None end.
Definition as_text (c : cbor) : option bytes := match c with CText b => Some b | _ => None end.
Definition as_uint (c : cbor) : option N := match c with CUInt n => Some n | _ => None end.

Fixpoint all_some {A} (l : list (option A)) : option (list A) :=
  match l with
  | [] => Some []
  | Some a :: r => match all_some r with Some r' => Some (a :: r') | None => None end
  | None :: _ => None
  end.

Definition named_map {A} (f : cbor -> option A) (c : cbor) : option (list (bytes * A)) :=
  match c with
  | CMap kvs => all_some (map (fun kv => match fst kv, f (snd kv) with
                                         | CText n, Some a => Some (n, a)
                                         | _, _ => None
                                         end) kvs)
  | _ => None
  end.

Definition as_bool (c : cbor) : option bool := match c with CBool b => Some b | _ => None end.

Definition namespaces_of (c : cbor) : option req_namespaces := named_map (named_map as_bool) c.
Definition errors_of (c : cbor) : option element_errors :=
  match c with
  | CNull => Some []
  | _ => named_map (named_map int_val) c
  end.

(* [docType, issuerSigned value, kty name, crv name, signature, errors | null] *)
Definition doc_of (c : cbor) : option signed_doc :=
  match c with
  | CArray [CText dt; isg; CText kty; CText crv; CBytes sg; errs] =>
    match errors_of errs with
    | Some e => Some {| d_doc_type := dt; d_issuer_signed := isg;
                        d_key := {| kc_kty := string_of_bytes kty; kc_crv := string_of_bytes crv |};
                        d_signature := sg; d_errors := e |}
    | None => None
    end
  | _ => None
  end.

Definition method_of (c : cbor) : option retrieval_method :=
  match c with
  | CArray [CUInt 1; CUInt cmd; CUInt resp] => Some (DrmNfc {| nfc_max_command := cmd; nfc_max_response := resp |})
  | CArray [CUInt 2; central; peripheral] =>
    match opt_of as_bytes central,
          opt_of (fun p => match p with
                           | CArray [CBytes u; a] => match opt_of as_bytes a with Some a' => Some (u, a') | None => None end
                           | _ => None
                           end) peripheral with
    | Some cu, Some p => Some (DrmBle {| ble_central_uuid := cu; ble_peripheral := p |})
    | _, _ => None
    end
  | CArray [CUInt 3; pass; cls; chan; band] =>
    match opt_of as_text pass, opt_of as_uint cls, opt_of as_uint chan, opt_of as_bytes band with
    | Some p, Some c1, Some c2, Some b =>
      Some (DrmWifi {| wifi_pass_phrase := p; wifi_operating_class := c1; wifi_channel_number := c2; wifi_band_info := b |})
    | _, _, _, _ => None
    end
  | _ => None
  end.

Definition server_method_of (c : cbor) : option server_method_t :=
  match c with
  | CArray [CUInt v; CText a; CText b] => Some (v, a, b)
  | _ => None
  end.

Definition enc (v : cbor) : cbor := CBytes (encode v).

Definition compose (what : bytes) (args : list cbor) : cbor :=
  if bytes_eqb what (bytes_of_string "session_data") then
    match args with
    | [d; s] => match opt_of as_bytes d, opt_of as_uint s with
                | Some d', Some s' => enc (compose_session_data d' s')
                | _, _ => CNull
                end
    | _ => CNull
    end
  else if bytes_eqb what (bytes_of_string "finalize_session_data") then
    match args with
    | [e] => match opt_of as_bytes e with Some e' => enc (finalize_session_data e') | None => CNull end
    | _ => CNull
    end
  else if bytes_eqb what (bytes_of_string "establishment") then
    match args with
    | [CBytes key; CBytes ct] =>
      match decode_all key with Some k => enc (compose_session_establishment k ct) | None => CNull end
    | _ => CNull
    end
  else if bytes_eqb what (bytes_of_string "ephemeral_key") then
    match args with
    | [CBytes x; CBytes y] => enc (compose_ephemeral_key x y)
    | _ => CNull
    end
  else if bytes_eqb what (bytes_of_string "device_request") then
    match args with
    | [nss] => match namespaces_of nss with Some n => enc (build_request n) | None => CNull end
    | _ => CNull
    end
  else if bytes_eqb what (bytes_of_string "device_response") then
    match args with
    | [CArray docs; CArray errs] =>
      match all_some (map doc_of docs), all_some (map as_text errs) with
      | Some ds, Some es =>
        match all_some (map compose_document ds) with
        | Some vs => enc (ok_response vs es)
        | None => CNull
        end
      | _, _ => CNull
      end
    | _ => CNull
    end
  else if bytes_eqb what (bytes_of_string "error_response") then
    match args with
    | [CText name] => enc (error_response (string_of_bytes name))
    | _ => CNull
    end
  else if bytes_eqb what (bytes_of_string "engagement") then
    match args with
    | [CBytes key; methods; server] =>
      match decode_all key,
            opt_of (fun m => match m with CArray ms => all_some (map method_of ms) | _ => None end) methods,
            opt_of (fun s => match s with
                             | CArray [w; o] => match opt_of server_method_of w, opt_of server_method_of o with
                                                | Some w', Some o' => Some (w', o')
                                                | _, _ => None
                                                end
                             | _ => None
                             end) server with
      | Some k, Some ms, Some sv => enc (compose_engagement k ms sv)
      | _, _, _ => CNull
      end
    | _ => CNull
    end
  else if bytes_eqb what (bytes_of_string "sig_alg") then
    (* [kty name, crv name] -> [model's algorithm | null, spec's algorithm for the numeric ids | null] *)
    match args with
    | [CText kty; CText crv] =>
      let k := {| kc_kty := string_of_bytes kty; kc_crv := string_of_bytes crv |} in
      CArray [match signature_algorithm k with Some a => int_cbor a | None => CNull end;
              match curve_ids k with
              | Some (t, c) => match spec_sig_alg t c with Some a => int_cbor a | None => CNull end
              | None => ctext "unknown curve"
              end;
              match curve_ids k with Some (t, c) => CArray [CUInt t; int_cbor c] | None => CNull end]
    | _ => CNull
    end
  else CNull.

Definition api_c18 (cmd : bytes) (args : list cbor) : option cbor :=
  if bytes_eqb cmd (bytes_of_string "c18.validate") then
    match args with
    | [CText k; CBytes bs] =>
      match kind_of k with
      | Some kd =>
        match decode_all bs with
        | Some v => Some (verdict_text kd v)
        | None => Some (ctext "fail:not exactly one well-formed CBOR data item")
        end
      | None => Some (ctext "fail:unknown message kind")
      end
    | [_; _] => Some (ctext "fail:no bytes were emitted")
    | _ => None
    end
  else if bytes_eqb cmd (bytes_of_string "c18.compose") then
    match args with
    | CText what :: rest => Some (compose what rest)
    | _ => None
    end
  else None.
