(* runner commands for C20 *)
From Isomdl Require Import Lib.Bytes Lib.Cbor Model.AgeOver Spec.AgeOverSpec Spec.AgeOverCheck.
Open Scope N_scope.
Local Open Scope string_scope.

Definition s (x : String.string) : bytes := bytes_of_string x.

Definition err_code (e : age_err) : N := match e with PrefixError => 1 | ParseIntError => 2 end.

Fixpoint held_of_cbor (l : list cbor) : option (list bentry) :=
  match l with
  | [] => Some []
  | CArray [CText id; v; CBytes item] :: r =>
    match held_of_cbor r with Some r' => Some ((id, (v, item)) :: r') | None => None end
  | _ => None
  end.

Definition api_c20 (cmd : bytes) (args : list cbor) : option cbor :=
  if bytes_eqb cmd (s "c20.parse_age") then
    match args with
    | [CText id] => Some (match parse_age id with AOk n => CArray [CUInt 0; CUInt n] | AErr e => CArray [CUInt 1; CUInt (err_code e)] end)
    | _ => None
    end
  else if bytes_eqb cmd (s "c20.nearest") then
    match args with
    | [CText req; CArray h] =>
      match held_of_cbor h with
      | None => None
      | Some held =>
        Some (match nearest req held with
              | AOk None => CArray [CUInt 0; CNull]
              | AOk (Some e) => CArray [CUInt 0; CBytes (snd (snd e))]
              | AErr e => CArray [CUInt 1; CUInt (err_code e)]
              end)
      end
    | _ => None
    end
  else if bytes_eqb cmd (s "c20.spec") then
    (* args: request id, held, implementation's answer in the same shape as c20.nearest's result.
       answer: "ok" | "fail:<why>" | "n/a:<why>" when the case is outside the property's domain *)
    match args with
    | [CText req; CArray h; CArray [CUInt tag; ans]] =>
      match held_of_cbor h with
      | None => None
      | Some held =>
        Some (match parse_age req with
              | AErr _ => if tag =? 1 then ctext "ok" else ctext "fail:malformed request identifier accepted"
              | AOk nn =>
                if negb (held_wf_b held) then ctext "n/a:held set outside documented domain"
                else if negb (tag =? 0) then ctext "fail:error for a well-formed request"
                else match ans with
                     | CNull => if nearest_spec_b nn held None then ctext "ok" else ctext "fail:nothing returned but an answering claim is held"
                     | CBytes item =>
                       match find (fun e => bytes_eqb (snd (snd e)) item) held with
                       | None => ctext "fail:returned item is not a held item"
                       | Some c => if nearest_spec_b nn held (Some c) then ctext "ok" else ctext "fail:returned claim is not the nearest truthful claim"
                       end
                     | _ => ctext "fail:unexpected answer shape"
                     end
              end)
      end
    | _ => None
    end
  else None.
