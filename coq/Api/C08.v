(* runner commands for C08 *)
From Isomdl Require Import Lib.Bytes Lib.Cbor Model.KeySchedule Spec.Iso9_1_1.
Open Scope N_scope.
Local Open Scope string_scope.

Definition key_of_cbor (c : cbor) : option cose_key :=
  match c with
  | CArray [CUInt 2; CUInt crv; CBytes x; CBytes y] => Some (EC2 crv x (YValue y))
  | CArray [CUInt 2; CUInt crv; CBytes x; CBool s] => Some (EC2 crv x (YSign s))
  | CArray [CUInt 1; CUInt crv; CBytes x] => Some (OKP crv x)
  | _ => None
  end.

Definition well_shaped_b (k : cose_key) : bool :=
  match k with
  | EC2 1 x (YValue y) => Nat.eqb (length x) 32 && Nat.eqb (length y) 32
  | EC2 1 x (YSign _) => Nat.eqb (length x) 32
  | _ => false
  end.

Definition api_c08 (cmd : bytes) (args : list cbor) : option cbor :=
  if bytes_eqb cmd (bytes_of_string "c08.session_keys") then
    match args with
    | [CBytes zab; CBytes de; CBytes erk; ho] =>
      let tb := transcript_bytes de erk ho in
      Some (CArray [CBytes (session_key zab tb true); CBytes (session_key zab tb false)])
    | _ => None
    end
  else if bytes_eqb cmd (bytes_of_string "c08.ble_ident") then
    match args with
    | [CBytes ek] => Some (CBytes (ble_ident ek))
    | _ => None
    end
  else if bytes_eqb cmd (bytes_of_string "c08.spec_keys") then
    match args with
    | [CBytes zab; CBytes de; CBytes erk; ho; CArray [CBytes skr; CBytes skd]] =>
      let st := iso_session_transcript de erk ho in
      Some (if negb (bytes_eqb skr (iso_sk_reader zab st)) then ctext "fail:SKReader is not HKDF-SHA-256(Z_AB, SHA-256(SessionTranscriptBytes), 'SKReader', 32)"
            else if negb (bytes_eqb skd (iso_sk_device zab st)) then ctext "fail:SKDevice is not HKDF-SHA-256(Z_AB, SHA-256(SessionTranscriptBytes), 'SKDevice', 32)"
            else ctext "ok")
    | [_; _; _; _; _] => Some (ctext "fail:no session keys derived for valid inputs")
    | _ => None
    end
  else if bytes_eqb cmd (bytes_of_string "c08.spec_ble") then
    match args with
    | [CBytes ek; CBytes obs] =>
      Some (if bytes_eqb obs (iso_ble_ident (encode (CTag 24 (CBytes ek)))) then ctext "ok"
            else ctext "fail:BLE ident is not HKDF-SHA-256(EDeviceKeyBytes, no salt, 'BLEIdent', 16)")
    | [_; _] => Some (ctext "fail:no BLE ident")
    | _ => None
    end
  else if bytes_eqb cmd (bytes_of_string "c08.shared_secret") then
    (* key, does the point oracle accept the SEC1 bytes?  -> 0 ok / 1 refused / 2 panic *)
    match args with
    | [k; CBool valid] =>
      match key_of_cbor k with
      | Some key => Some (CUInt (match shared_secret (fun _ => valid) (fun _ => []) key with KOk _ => 0 | KErr => 1 | KPanic => 2 end))
      | None => None
      end
    | _ => None
    end
  else if bytes_eqb cmd (bytes_of_string "c08.point") then
    match args with
    | [k] =>
      match key_of_cbor k with
      | Some key => Some (match encoded_point key with KOk p => CArray [CUInt 0; CBytes p] | KErr => CArray [CUInt 1] | KPanic => CArray [CUInt 2] end)
      | None => None
      end
    | _ => None
    end
  else if bytes_eqb cmd (bytes_of_string "c08.spec_shared_secret") then
    (* a peer key that is not a valid P-256 point is refused rather than used — and never panics *)
    match args with
    | [k; CBool valid; CUInt obs] =>
      match key_of_cbor k with
      | Some key =>
        Some (if obs =? 2 then ctext "fail:peer key made the library panic instead of being refused"
              else if well_shaped_b key && valid then (if obs =? 0 then ctext "ok" else ctext "fail:valid P-256 peer key refused")
              else if obs =? 1 then ctext "ok" else ctext "fail:invalid peer key used")
      | None => None
      end
    | _ => None
    end
  else None.
