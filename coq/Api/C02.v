(* runner commands for C02 *)
From Isomdl Require Import Lib.Bytes Lib.Cbor Model.Select Spec.SelectSpec Spec.SelectCheck.
Open Scope N_scope.
Local Open Scope string_scope.

Fixpoint keys_of (l : list cbor) : option (list key) :=
  match l with
  | [] => Some []
  | CText k :: r => option_map (cons k) (keys_of r)
  | _ => None
  end.

Fixpoint nss_of (l : list cbor) : option (list (key * list key)) :=
  match l with
  | [] => Some []
  | CArray [CText ns; CArray ids] :: r =>
    match keys_of ids, nss_of r with Some i, Some r' => Some ((ns, i) :: r') | _, _ => None end
  | _ => None
  end.

Fixpoint reqs_of (l : list cbor) : option request :=
  match l with
  | [] => Some []
  | CArray [CText dt; CArray nss] :: r =>
    match nss_of nss, reqs_of r with Some n, Some r' => Some ((dt, n) :: r') | _, _ => None end
  | _ => None
  end.

Fixpoint items_of (l : list cbor) : option (list (key * bytes)) :=
  match l with
  | [] => Some []
  | CArray [CText id; CBytes it] :: r => option_map (cons (id, it)) (items_of r)
  | _ => None
  end.

Fixpoint held_ns_of (l : list cbor) : option (list (key * list (key * bytes))) :=
  match l with
  | [] => Some []
  | CArray [CText ns; CArray items] :: r =>
    match items_of items, held_ns_of r with Some i, Some r' => Some ((ns, i) :: r') | _, _ => None end
  | _ => None
  end.

Fixpoint docs_of (l : list cbor) : option (list (key * bdoc)) :=
  match l with
  | [] => Some []
  | CArray [CText dt; CBool cs; CArray nss] :: r =>
    match held_ns_of nss, docs_of r with
    | Some n, Some r' => Some ((dt, {| d_can_sign := cs; d_ns := n |}) :: r')
    | _, _ => None
    end
  | _ => None
  end.

(* canonical output: documents sorted by docType; error identifiers sorted and de-duplicated
   (they live in a map on the wire); document errors sorted *)
Fixpoint insert_key (k : key) (l : list key) : list key :=
  match l with
  | [] => [k]
  | x :: r => if bytes_eqb k x then l else if bytes_ltb k x then k :: l else x :: insert_key k r
  end.
Definition sort_keys (l : list key) : list key := fold_right insert_key [] l.

Fixpoint insert_pd (p : prepared_doc bytes) (l : list (prepared_doc bytes)) : list (prepared_doc bytes) :=
  match l with
  | [] => [p]
  | x :: r => if bytes_ltb (pd_doc_type p) (pd_doc_type x) then p :: l else x :: insert_pd p r
  end.

Definition cbor_of_pd (p : prepared_doc bytes) : cbor :=
  CArray [CText (pd_doc_type p);
          CArray (map (fun ni => CArray [CText (fst ni); CArray (map CBytes (snd ni))]) (pd_disclosed p));
          CArray (map (fun ni => CArray [CText (fst ni); CArray (map CText (sort_keys (snd ni)))]) (pd_errors p))].

Definition cbor_of_sel (s : bsel) : cbor :=
  CArray [CArray (map cbor_of_pd (fold_right insert_pd [] (sel_docs s)));
          CArray (map CText (sort_keys (sel_doc_errors s)))].

(* the observed response back into a selection *)
Fixpoint disclosed_of (l : list cbor) : option (list (key * list bytes)) :=
  match l with
  | [] => Some []
  | CArray [CText ns; CArray its] :: r =>
    let fix bs (l : list cbor) : option (list bytes) :=
        match l with [] => Some [] | CBytes b :: r => option_map (cons b) (bs r) | _ => None end in
    match bs its, disclosed_of r with Some i, Some r' => Some ((ns, i) :: r') | _, _ => None end
  | _ => None
  end.

Fixpoint pds_of (l : list cbor) : option (list (prepared_doc bytes)) :=
  match l with
  | [] => Some []
  | CArray [CText dt; CArray dis; CArray errs] :: r =>
    match disclosed_of dis, nss_of errs, pds_of r with
    | Some d, Some e, Some r' => Some ({| pd_doc_type := dt; pd_disclosed := d; pd_errors := e |} :: r')
    | _, _, _ => None
    end
  | _ => None
  end.

Definition sel_of (c : cbor) : option bsel :=
  match c with
  | CArray [CArray pds; CArray des] =>
    match pds_of pds, keys_of des with
    | Some p, Some d => Some {| sel_docs := p; sel_doc_errors := d |}
    | _, _ => None
    end
  | _ => None
  end.

Definition api_c02 (cmd : bytes) (args : list cbor) : option cbor :=
  if bytes_eqb cmd (bytes_of_string "c02.prepare") then
    match args with
    | [CArray docs; CArray req; CArray perm] =>
      match docs_of docs, reqs_of req, reqs_of perm with
      | Some d, Some r, Some p => Some (cbor_of_sel (prepare_response d r p))
      | _, _, _ => None
      end
    | _ => None
    end
  else if bytes_eqb cmd (bytes_of_string "c02.filter") then
    match args with
    | [CArray req; CArray perm] =>
      match reqs_of req, reqs_of perm with
      | Some r, Some p =>
        Some (CArray (map (fun e => CArray [CText (fst e); CArray (map (fun n => CArray [CText (fst n); CArray (map CText (snd n))]) (snd e))])
                          (filter_permitted r p)))
      | _, _ => None
      end
    | _ => None
    end
  else if bytes_eqb cmd (bytes_of_string "c02.spec") then
    match args with
    | [CArray docs; CArray req; CArray perm; obs] =>
      match docs_of docs, reqs_of req, reqs_of perm, sel_of obs with
      | Some d, Some r, Some p, Some s =>
        Some (if negb (sound_b d r p s) then ctext "fail:a disclosed item was not requested, not permitted or is not the held item"
              else if negb (errors_sound_b d r p s) then ctext "fail:an error entry names something that was not requested and permitted"
              else if complete_b d r p s then ctext "ok"
              else ctext "fail:a requested and permitted element is neither disclosed nor listed with an error")
      | _, _, _, _ => Some (ctext "fail:response does not have the expected shape")
      end
    | _ => None
    end
  else None.
