(* runner commands for C12.

   Shapes (all CBOR):
     oid      = [uint arcs...]
     name     = [ [ [oid, bytes value-DER] ... ] ... ]                 RDN sequence of attribute sets
     gn       = 0 rfc822Name | 1 uniformResourceIdentifier | 2 anything else
     point    = [dpname, reasons? bool, crl_issuer? bool]   dpname = [0] absent | [1, [gn...]] fullName | [2] relative
     decoded  = [0, bits] KeyUsage | [1, [oid...]] ExtKeyUsage | [2, ca bool, pathlen uint/null] BasicConstraints
              | [3, [point...]] CRLDistributionPoints | [4, [gn...]] IssuerAltName | [5, bytes] SKI
              | [6, bytes/null] AKI | [7] other | [8] undecodable
     ext      = [oid, critical bool, decoded]
     cert     = [not_before uint, not_after uint, issuer name, subject name, key bytes, spki bytes,
                 [spki bytes of every key under which the signature verifies...], [ext...]]
     anchor   = [purpose (0 Iaca | 1 ReaderCa), cert]
     skitable = [[key bytes, sha1 bytes]...]      oracle answers for ski_of_key
   c12.validate [ruleset (0 Mdl | 1 AamvaMdl | 2 MdlReaderOneStep), now uint, [cert...] chain, [anchor...], skitable]
        -> [error code...] sorted ascending (a multiset)
   c12.spec     the same arguments + the implementation's sorted error codes -> verdict text *)
From Isomdl Require Import Lib.Bytes Lib.Cbor Model.X509 Spec.AnnexB.
Open Scope N_scope.
Local Open Scope string_scope.

Definition s12 (x : String.string) : bytes := bytes_of_string x.

Fixpoint map_opt {A B} (f : A -> option B) (l : list A) : option (list B) :=
  match l with
  | [] => Some []
  | x :: r => match f x, map_opt f r with Some y, Some r' => Some (y :: r') | _, _ => None end
  end.

Definition uint_of_cbor (c : cbor) : option N := match c with CUInt n => Some n | _ => None end.
Definition bytes_of_cbor (c : cbor) : option bytes := match c with CBytes b => Some b | _ => None end.
Definition oid_of_cbor (c : cbor) : option oid := match c with CArray l => map_opt uint_of_cbor l | _ => None end.

Definition attr_of_cbor (c : cbor) : option attr :=
  match c with
  | CArray [o; CBytes v] => match oid_of_cbor o with Some o' => Some (o', v) | None => None end
  | _ => None
  end.
Definition rdn_of_cbor (c : cbor) : option rdn := match c with CArray l => map_opt attr_of_cbor l | _ => None end.
Definition name_of_cbor (c : cbor) : option name := match c with CArray l => map_opt rdn_of_cbor l | _ => None end.

Definition gn_of_cbor (c : cbor) : option gn_kind :=
  match c with
  | CUInt n => Some (if n =? 0 then GnRfc822 else if n =? 1 then GnUri else GnOther)
  | _ => None
  end.
Definition gns_of_cbor (c : cbor) : option (list gn_kind) :=
  match c with CArray l => map_opt gn_of_cbor l | _ => None end.

Definition point_of_cbor (c : cbor) : option dist_point :=
  match c with
  | CArray [CArray (CUInt k :: more); CBool r; CBool i] =>
    match (if k =? 0 then match more with [] => Some DpAbsent | _ => None end
           else if k =? 1 then match more with [g] => option_map DpFullName (gns_of_cbor g) | _ => None end
           else match more with [] => Some DpRelative | _ => None end) with
    | Some n => Some {| dp_name_of := n; dp_reasons := r; dp_crl_issuer := i |}
    | None => None
    end
  | _ => None
  end.

Definition decoded_of_cbor (c : cbor) : option decoded :=
  match c with
  | CArray [CUInt 0; CUInt bits] => Some (DKeyUsage bits)
  | CArray [CUInt 1; CArray l] => option_map DExtKeyUsage (map_opt oid_of_cbor l)
  | CArray [CUInt 2; CBool ca; CNull] => Some (DBasicConstraints ca None)
  | CArray [CUInt 2; CBool ca; CUInt n] => Some (DBasicConstraints ca (Some n))
  | CArray [CUInt 3; CArray l] => option_map DCrlDp (map_opt point_of_cbor l)
  | CArray [CUInt 4; g] => option_map DIssuerAltName (gns_of_cbor g)
  | CArray [CUInt 5; CBytes b] => Some (DSki b)
  | CArray [CUInt 6; CBytes b] => Some (DAki (Some b))
  | CArray [CUInt 6; CNull] => Some (DAki None)
  | CArray [CUInt 7] => Some DOther
  | CArray [CUInt 8] => Some DUndecodable
  | _ => None
  end.

Definition ext_of_cbor (c : cbor) : option ext :=
  match c with
  | CArray [o; CBool crit; d] =>
    match oid_of_cbor o, decoded_of_cbor d with
    | Some o', Some d' => Some {| e_oid := o'; e_crit := crit; e_val := d' |}
    | _, _ => None
    end
  | _ => None
  end.

Definition cert_of_cbor (c : cbor) : option cert :=
  match c with
  | CArray [CUInt nb; CUInt na; iss; sub; CBytes key; CBytes spki; CArray sk; CArray exts] =>
    match name_of_cbor iss, name_of_cbor sub, map_opt bytes_of_cbor sk, map_opt ext_of_cbor exts with
    | Some i, Some s, Some k, Some e =>
      Some {| c_not_before := Z.of_N nb; c_not_after := Z.of_N na; c_issuer := i; c_subject := s;
              c_key := key; c_spki := spki; c_sigkeys := k; c_exts := e |}
    | _, _, _, _ => None
    end
  | _ => None
  end.

Definition anchor_of_cbor (c : cbor) : option anchor :=
  match c with
  | CArray [CUInt p; crt] =>
    match cert_of_cbor crt with
    | Some c' => Some {| a_cert := c'; a_purpose := if p =? 0 then Iaca else ReaderCa |}
    | None => None
    end
  | _ => None
  end.

Definition ruleset_of_cbor (c : cbor) : option ruleset :=
  match c with
  | CUInt n => if n =? 0 then Some Mdl else if n =? 1 then Some AamvaMdl else if n =? 2 then Some MdlReaderOneStep else None
  | _ => None
  end.

Definition skipair_of_cbor (c : cbor) : option (bytes * bytes) :=
  match c with CArray [CBytes k; CBytes d] => Some (k, d) | _ => None end.

(* the oracles, instantiated from the answers the harness computed with sha1 / p256 directly *)
Fixpoint table_ski (t : list (bytes * bytes)) (key : bytes) : bytes :=
  match t with
  | [] => []
  | (k, d) :: r => if bytes_eqb k key then d else table_ski r key
  end.
Definition carried_verifies (subject issuer : cert) : bool :=
  existsb (bytes_eqb (c_spki issuer)) (c_sigkeys subject).

(* ---------- error codes ---------- *)

Definition ctx_code (c : context) : N :=
  match c with CtxDs => 1 | CtxIaca => 2 | CtxReader => 3 | CtxReaderCa => 4 | CtxComparison => 5 end.
Definition xname_code (x : ext_name) : N :=
  match x with XSki => 1 | XEku => 2 | XKu => 3 | XBc => 4 | XCrl => 5 | XIan => 6 end.
Definition verr_code (v : verr) : N :=
  match v with VDecode => 0 | VValue => 1 | VCrlEmpty => 2 | VCrlIssuer => 3 | VCrlReasons => 4 | VCrlPoint => 5 | VIanEmpty => 6 end.
Definition nattr_code (a : name_attr) : N := match a with NCountry => 0 | NState => 1 end.
Definition kind_code (k : ekind) : N :=
  match k with
  | KExpired => 1 | KNotYetValid => 2 | KDisallowed => 3 | KUnknownCritical => 4 | KNoTrustAnchor => 5
  | KNameMissing a => 10 + nattr_code a
  | KNameMultiple a => 12 + nattr_code a
  | KNameMismatch a => 14 + nattr_code a
  | KMissingExt x => 100 + xname_code x
  | KExt x v => 200 + 10 * xname_code x + verr_code v
  end.
Definition error_code (e : error) : N := 1000 * ctx_code (fst e) + kind_code (snd e).

Fixpoint insert_sorted (x : N) (l : list N) : list N :=
  match l with
  | [] => [x]
  | y :: r => if x <=? y then x :: l else y :: insert_sorted x r
  end.
Definition sort_codes (l : list N) : list N := fold_right insert_sorted [] l.

Record c12_input := {
  i_rs : ruleset; i_now : Z; i_chain : x5chain; i_reg : list anchor; i_ski : bytes -> bytes
}.

Definition input_of_args (args : list cbor) : option c12_input :=
  match args with
  | rs :: CUInt now :: CArray (first :: rest) :: CArray reg :: CArray skis :: _ =>
    match ruleset_of_cbor rs, cert_of_cbor first, map_opt cert_of_cbor rest, map_opt anchor_of_cbor reg,
          map_opt skipair_of_cbor skis with
    | Some rs', Some f, Some r, Some reg', Some t =>
      Some {| i_rs := rs'; i_now := Z.of_N now; i_chain := {| x_first := f; x_rest := r |};
              i_reg := reg'; i_ski := table_ski t |}
    | _, _, _, _, _ => None
    end
  | _ => None
  end.

Definition run_validate (i : c12_input) : list error :=
  validate (i_ski i) carried_verifies (i_rs i) (i_now i) (i_chain i) (i_reg i).

Definition spec_verdict (i : c12_input) (impl_success : bool) : cbor :=
  let leaf := x_first (i_chain i) in
  let conf := conformant_b (i_ski i) carried_verifies (i_rs i) (i_now i) leaf (i_reg i) in
  if Bool.eqb impl_success conf then ctext "ok"
  else if impl_success then
    (* accepted although not conformant *)
    (* a certificate that repeats an extension is outside the domain of the equivalence
       (C12_iff_needs_unique_extensions): the property neither requires nor forbids accepting it *)
    if negb (inputs_wf_b (i_rs i) leaf (i_reg i)) then
      ctext "n/a:certificate repeats an extension (outside the property's domain)"
    else ctext "fail:validation succeeded but the chain is not conformant"
  else
    (* conformant but rejected *)
    if negb (unambiguous_anchor_b carried_verifies (i_rs i) (i_now i) leaf (i_reg i))
    then ctext "known:c12_first_candidate_only:several registry entries anchor the leaf; only the first is examined"
    else ctext "fail:conformant chain rejected".

Definition api_c12 (cmd : bytes) (args : list cbor) : option cbor :=
  if bytes_eqb cmd (s12 "c12.validate") then
    match input_of_args args with
    | Some i => Some (CArray (map CUInt (sort_codes (map error_code (run_validate i)))))
    | None => None
    end
  else if bytes_eqb cmd (s12 "c12.spec") then
    match input_of_args args, args with
    | Some i, [_; _; _; _; _; CArray obs] => Some (spec_verdict i (is_nil obs))
    | _, _ => None
    end
  else None.
