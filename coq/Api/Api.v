(* The single entry point of the extracted model: one CBOR request in, one CBOR answer out. *)
From Isomdl Require Import Lib.Bytes Lib.Cbor Api.C20 Api.Session Api.C14 Api.C17 Api.C02 Api.C12 Api.C08 Api.ReaderAuth Api.C18 Api.C19.
Open Scope N_scope.
Local Open Scope string_scope.

Definition api (req : cbor) : cbor :=
  match req with
  | CArray (CText cmd :: args) =>
    match api_c20 cmd args with Some r => r | None =>
    match api_session cmd args with Some r => r | None =>
    match api_c14 cmd args with Some r => r | None =>
    match api_c17 cmd args with Some r => r | None =>
    match api_c02 cmd args with Some r => r | None =>
    match api_c12 cmd args with Some r => r | None =>
    match api_c08 cmd args with Some r => r | None =>
    match api_reader_auth cmd args with Some r => r | None =>
    match api_c18 cmd args with Some r => r | None =>
    match api_c19 cmd args with Some r => r | None =>
    CArray [ctext "error"; ctext "unknown command or bad arguments"; CText cmd]
    end end end end end end end end end end
  | _ => CArray [ctext "error"; ctext "request is not [cmd, args...]"]
  end.

Definition dispatch (input : bytes) : bytes :=
  match decode_all input with
  | Some req => encode (api req)
  | None => encode (CArray [ctext "error"; ctext "request is not a single CBOR item"])
  end.
