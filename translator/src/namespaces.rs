//! C19: code tables and field descriptors of the two mDL namespaces.
//!
//! * every enum in `src/definitions/namespaces/org_iso_18013_5_1{,_aamva}/*.rs` that is a code
//!   table -> `Gen/Tables.v`: the `to` arms (variant -> code) and the `from` arms (code -> variant)
//!   are extracted from *different* functions, plus the normalisation applied before the from-match
//!   and the behaviour of the wildcard arm (reject / pass the string through);
//! * every `#[derive(FromJson)]` struct in those directories -> `Gen/Fields.v`: ordered field
//!   descriptors (Rust name, wire identifier after `#[isomdl(rename)]`, type expression, `many`,
//!   `dynamic_parse`) for named structs, inner type for newtype structs.
//!
//! Only shapes are recognised; anything else fails the item (never a default).
use crate::find::*;
use crate::Out;
use std::fmt::Write as _;

const DIRS: [(&str, &str); 2] = [("mdl", "org_iso_18013_5_1"), ("aamva", "org_iso_18013_5_1_aamva")];

fn toks<T: quote::ToTokens>(t: &T) -> String {
    quote::ToTokens::to_token_stream(t).to_string()
}

fn gstr(s: &str) -> Result<String, String> {
    // Gallina string literal; only printable ASCII without '"' is expected in identifiers and codes
    if s.chars().all(|c| (' '..='~').contains(&c) && c != '"') {
        Ok(format!("(b \"{s}\")"))
    } else {
        Err(format!("string {s:?} is not plain printable ASCII"))
    }
}

fn lit_str_expr(e: &syn::Expr) -> Option<String> {
    match e {
        syn::Expr::Lit(syn::ExprLit { lit: syn::Lit::Str(s), .. }) => Some(s.value()),
        // "lit".to_string()
        syn::Expr::MethodCall(mc) if mc.method == "to_string" && mc.args.is_empty() => lit_str_expr(&mc.receiver),
        syn::Expr::Paren(p) => lit_str_expr(&p.expr),
        syn::Expr::Group(g) => lit_str_expr(&g.expr),
        _ => None,
    }
}

/// `Self::V`, `Enum::V` -> V (no fields)
fn unit_variant_path(e: &syn::Expr, enum_name: &str) -> Option<String> {
    if let syn::Expr::Path(p) = e {
        let segs: Vec<String> = p.path.segments.iter().map(|s| s.ident.to_string()).collect();
        if segs.len() == 2 && (segs[0] == "Self" || segs[0] == enum_name) {
            return Some(segs[1].clone());
        }
    }
    None
}

fn unit_variant_pat(p: &syn::Pat, enum_name: &str) -> Option<String> {
    if let syn::Pat::Path(pp) = p {
        let segs: Vec<String> = pp.path.segments.iter().map(|s| s.ident.to_string()).collect();
        if segs.len() == 2 && (segs[0] == "Self" || segs[0] == enum_name) {
            return Some(segs[1].clone());
        }
    }
    None
}

/// `Enum::V(x)` pattern with one binding -> (V, x)
fn tuple_variant_pat(p: &syn::Pat, enum_name: &str) -> Option<(String, String)> {
    if let syn::Pat::TupleStruct(ts) = p {
        let segs: Vec<String> = ts.path.segments.iter().map(|s| s.ident.to_string()).collect();
        if segs.len() == 2 && (segs[0] == "Self" || segs[0] == enum_name) && ts.elems.len() == 1 {
            if let syn::Pat::Ident(pi) = &ts.elems[0] {
                return Some((segs[1].clone(), pi.ident.to_string()));
            }
        }
    }
    None
}

fn first_match(b: &syn::Block) -> Option<&syn::ExprMatch> {
    // the function body must be exactly one match expression (possibly the tail expression)
    if b.stmts.len() != 1 {
        return None;
    }
    match &b.stmts[0] {
        syn::Stmt::Expr(syn::Expr::Match(m), _) => Some(m),
        _ => None,
    }
}

#[derive(Clone, Debug, PartialEq)]
enum Code {
    S(String),
    I(u64),
}

#[derive(Debug, PartialEq, Clone, Copy)]
enum Norm {
    None,
    Lower,
    Upper,
}

/// normalisation written in a scrutinee / call chain: looks for `.to_lowercase()` / `.to_uppercase()`
fn norm_of_tokens(t: &str) -> Result<Norm, String> {
    let lo = t.matches("to_lowercase").count() + t.matches("to_ascii_lowercase").count();
    let up = t.matches("to_uppercase").count() + t.matches("to_ascii_uppercase").count();
    if t.contains("ascii_lowercase") || t.contains("ascii_uppercase") || t.contains("trim") || t.contains("replace") {
        return Err(format!("unrecognised normalisation in `{t}`"));
    }
    match (lo, up) {
        (0, 0) => Ok(Norm::None),
        (1, 0) => Ok(Norm::Lower),
        (0, 1) => Ok(Norm::Upper),
        _ => Err(format!("more than one case normalisation in `{t}`")),
    }
}

struct Table {
    ns: String,
    name: String,
    to: Vec<(String, Code)>,
    from: Vec<(Code, String)>,
    norm: Norm,
    /// wildcard arm of the from-match keeps the string (UNDistinguishingSign::NoneApplicable)
    passthrough: Option<String>,
    is_int: bool,
}

fn impls_for<'a>(file: &'a syn::File, enum_name: &str) -> Vec<&'a syn::ItemImpl> {
    file.items
        .iter()
        .filter_map(|it| if let syn::Item::Impl(im) = it { Some(im) } else { None })
        .filter(|im| {
            let s = toks(&im.self_ty).replace(' ', "");
            let t = im.trait_.as_ref().map(|(_, p, _)| toks(p).replace(' ', "")).unwrap_or_default();
            s == enum_name || t.contains(&format!("<{enum_name}>"))
        })
        .collect()
}

fn impl_fn<'a>(im: &'a syn::ItemImpl, name: &str) -> Option<&'a syn::ImplItemFn> {
    im.items.iter().find_map(|ii| match ii {
        syn::ImplItem::Fn(f) if f.sig.ident == name => Some(f),
        _ => None,
    })
}

fn has_derive(attrs: &[syn::Attribute], what: &str) -> bool {
    attrs.iter().any(|a| a.path().is_ident("derive") && toks(a).split(|c: char| !c.is_alphanumeric() && c != '_').any(|t| t == what))
}

fn extract_enum_table(ns: &str, file: &syn::File, en: &syn::ItemEnum) -> Result<Table, String> {
    let name = en.ident.to_string();
    let impls = impls_for(file, &name);
    let mut t = Table { ns: ns.into(), name: name.clone(), to: vec![], from: vec![], norm: Norm::None, passthrough: None, is_int: false };

    // ---- strum-derived string enum (VehicleCategoryCode) ----
    if has_derive(&en.attrs, "EnumString") || has_derive(&en.attrs, "AsRefStr") {
        if !(has_derive(&en.attrs, "EnumString") && has_derive(&en.attrs, "AsRefStr")) {
            return Err("strum enum must derive both EnumString and AsRefStr".into());
        }
        if en.attrs.iter().any(|a| a.path().is_ident("strum")) {
            return Err("enum-level #[strum(..)] attribute changes the names".into());
        }
        for v in &en.variants {
            if !matches!(v.fields, syn::Fields::Unit) || v.attrs.iter().any(|a| a.path().is_ident("strum")) || v.discriminant.is_some() {
                return Err(format!("strum variant {} is not a plain unit variant", v.ident));
            }
            let n = v.ident.to_string();
            // AsRefStr: variant -> its name ; EnumString: its name -> variant (two derives, one list)
            t.to.push((n.clone(), Code::S(n.clone())));
            t.from.push((Code::S(n.clone()), n));
        }
        // to_cbor must go through as_ref, from_json through parse with the normalisation before it
        let tocbor = impls.iter().find(|im| toks(&im.self_ty).contains("Value") || im.trait_.as_ref().map(|(_, p, _)| toks(p).contains("ToCbor")).unwrap_or(false));
        match tocbor {
            Some(im) if toks(im).contains("as_ref") && toks(im).contains("Text") => {}
            _ => return Err("conversion to ciborium::Value via as_ref() into Text not found".into()),
        }
        let fj = impls.iter().find(|im| im.trait_.as_ref().map(|(_, p, _)| toks(p).contains("FromJson")).unwrap_or(false)).ok_or("impl FromJson not found")?;
        let f = impl_fn(fj, "from_json").ok_or("fn from_json not found")?;
        let body = toks(&f.block);
        if !(body.contains("String :: from_json") && body.contains("parse")) {
            return Err("from_json is not String::from_json(..)?.<norm>.parse()".into());
        }
        t.norm = norm_of_tokens(&body)?;
        return Ok(t);
    }

    // ---- hand-written tables ----
    for v in &en.variants {
        match &v.fields {
            syn::Fields::Unit => {}
            syn::Fields::Unnamed(u) if u.unnamed.len() == 1 && toks(&u.unnamed[0].ty) == "String" => {}
            _ => return Err(format!("variant {} has an unexpected payload", v.ident)),
        }
    }
    let mut to_fn: Option<&syn::ImplItemFn> = None;
    let mut from_fn: Option<&syn::ImplItemFn> = None;
    let mut from_is_result = true;
    for im in &impls {
        let tr = im.trait_.as_ref().map(|(_, p, _)| toks(p).replace(' ', "")).unwrap_or_default();
        let selfty = toks(&im.self_ty).replace(' ', "");
        if tr.is_empty() && selfty == name {
            for n in ["to_str", "as_str"] {
                if let Some(f) = impl_fn(im, n) {
                    if to_fn.is_some() {
                        return Err("two candidate `to` functions".into());
                    }
                    to_fn = Some(f);
                }
            }
        } else if tr == format!("From<{name}>") && (selfty == "u8" || selfty == "String") {
            if to_fn.is_some() {
                return Err("two candidate `to` functions".into());
            }
            to_fn = impl_fn(im, "from");
            t.is_int = selfty == "u8";
        } else if tr == "FromStr" && selfty == name {
            from_fn = impl_fn(im, "from_str");
        } else if tr == "TryFrom<u32>" && selfty == name {
            from_fn = impl_fn(im, "try_from");
        } else if tr == "From<String>" && selfty == name {
            from_fn = impl_fn(im, "from");
            from_is_result = false;
        }
    }
    let to_fn = to_fn.ok_or("no `to` function (to_str / as_str / From<E> for u8|String)")?;
    let from_fn = from_fn.ok_or("no `from` function (FromStr / TryFrom<u32> / From<String>)")?;

    // to arms
    let m = first_match(&to_fn.block).ok_or("`to` function body is not a single match")?;
    let mut to_pass: Option<String> = None;
    for arm in &m.arms {
        if arm.guard.is_some() {
            return Err("guard in `to` match".into());
        }
        if let Some(v) = unit_variant_pat(&arm.pat, &name) {
            if let Some(s) = lit_str_expr(&arm.body) {
                t.to.push((v, Code::S(s)));
            } else if let Some(n) = int_of(&arm.body) {
                if n < 0 {
                    return Err("negative code".into());
                }
                t.to.push((v, Code::I(n as u64)));
            } else {
                return Err(format!("`to` arm for {v} is not a literal: {}", toks(&arm.body)));
            }
        } else if let Some((v, x)) = tuple_variant_pat(&arm.pat, &name) {
            if toks(&arm.body) == x {
                to_pass = Some(v);
            } else {
                return Err(format!("`to` arm for {v}(..) does not return its payload"));
            }
        } else {
            return Err(format!("unrecognised `to` arm pattern: {}", toks(&arm.pat)));
        }
    }
    // from arms
    let m = first_match(&from_fn.block).ok_or("`from` function body is not a single match")?;
    t.norm = norm_of_tokens(&toks(&m.expr))?;
    let mut from_pass: Option<String> = None;
    let mut saw_default = false;
    for arm in &m.arms {
        if arm.guard.is_some() || saw_default {
            return Err("guard or arm after the wildcard in `from` match".into());
        }
        let lit = match &arm.pat {
            syn::Pat::Lit(pl) => match &pl.lit {
                syn::Lit::Str(s) => Some(Code::S(s.value())),
                syn::Lit::Int(i) => Some(Code::I(i.base10_parse::<u64>().map_err(|e| e.to_string())?)),
                _ => return Err("unexpected literal kind in `from` match".into()),
            },
            syn::Pat::Wild(_) | syn::Pat::Ident(_) => None,
            other => return Err(format!("unrecognised `from` arm pattern: {}", toks(other))),
        };
        // body: Ok(Self::V) | Self::V | Err(..) | Self::V(s)
        let body = match &*arm.body {
            syn::Expr::Call(c) if toks(&c.func) == "Ok" && c.args.len() == 1 && from_is_result => unit_variant_path(&c.args[0], &name).map(|v| (v, false)),
            syn::Expr::Call(c) if toks(&c.func) == "Err" && from_is_result => None,
            syn::Expr::Call(c) if !from_is_result && c.args.len() == 1 => {
                // Self::NoneApplicable(s)
                unit_variant_path(&c.func, &name).map(|v| (v, true))
            }
            e if !from_is_result => unit_variant_path(e, &name).map(|v| (v, false)),
            other => return Err(format!("unrecognised `from` arm body: {}", toks(other))),
        };
        match (lit, body) {
            (Some(c), Some((v, false))) => t.from.push((c, v)),
            (None, None) if from_is_result => saw_default = true, // _ => Err(..)
            (None, Some((v, true))) => {
                from_pass = Some(v);
                saw_default = true;
            }
            (l, b) => return Err(format!("unrecognised `from` arm: {:?} => {:?}", l, b)),
        }
    }
    if !saw_default {
        return Err("`from` match has no wildcard arm".into());
    }
    if to_pass != from_pass {
        return Err(format!("pass-through variant differs: to {:?} / from {:?}", to_pass, from_pass));
    }
    t.passthrough = to_pass;
    // kinds must agree
    let to_int = t.to.iter().all(|(_, c)| matches!(c, Code::I(_)));
    let to_str = t.to.iter().all(|(_, c)| matches!(c, Code::S(_)));
    let from_int = t.from.iter().all(|(c, _)| matches!(c, Code::I(_)));
    let from_str = t.from.iter().all(|(c, _)| matches!(c, Code::S(_)));
    if !((to_int && from_int) || (to_str && from_str)) || t.to.is_empty() || t.from.is_empty() {
        return Err("mixed or empty code kinds".into());
    }
    t.is_int = to_int && from_int && !t.to.is_empty() && matches!(t.to[0].1, Code::I(_));
    if t.is_int && (t.norm != Norm::None || t.passthrough.is_some()) {
        return Err("integer table with normalisation / pass-through".into());
    }
    // every declared unit variant must have a `to` arm (the Rust match is exhaustive)
    for v in &en.variants {
        let n = v.ident.to_string();
        if matches!(v.fields, syn::Fields::Unit) && !t.to.iter().any(|(x, _)| *x == n) {
            return Err(format!("variant {n} has no `to` arm"));
        }
    }
    // conversions to CBOR / from JSON must go through these two functions
    let all = impls.iter().map(|im| toks(*im)).collect::<Vec<_>>().join("\n");
    let to_name = to_fn.sig.ident.to_string();
    let via_to = if to_name == "from" {
        if t.is_int { all.contains("u8 :: from (") } else { all.contains("String :: from (") }
    } else {
        all.contains(&format!(". {to_name} ()"))
    };
    if !via_to {
        return Err("conversion to ciborium::Value does not go through the `to` function".into());
    }
    let fj = impls.iter().find(|im| im.trait_.as_ref().map(|(_, p, _)| toks(p).contains("FromJson")).unwrap_or(false)).ok_or("impl FromJson not found")?;
    let f = impl_fn(fj, "from_json").ok_or("fn from_json not found")?;
    let body = toks(&f.block);
    let ok = if t.is_int {
        body.contains("u32 :: from_json") && body.contains("try_into")
    } else if from_is_result {
        body.contains("String :: from_json") && body.contains("parse")
    } else {
        body.contains("String :: from_json") && body.contains("Into :: into")
    };
    if !ok || norm_of_tokens(&body)? != Norm::None {
        return Err(format!("from_json has an unexpected shape: {body}"));
    }
    Ok(t)
}

fn emit_code(c: &Code) -> Result<String, String> {
    match c {
        Code::S(s) => gstr(s),
        Code::I(n) => Ok(n.to_string()),
    }
}

fn emit_table(t: &Table, w: &mut String) -> Result<(), String> {
    let id = format!("{}_{}", t.ns, t.name);
    let mut to = vec![];
    for (v, c) in &t.to {
        to.push(format!("({}, {})", gstr(v)?, emit_code(c)?));
    }
    let mut from = vec![];
    for (c, v) in &t.from {
        from.push(format!("({}, {})", emit_code(c)?, gstr(v)?));
    }
    if t.is_int {
        writeln!(w, "Definition tbl_{id} : int_table :=\n  {{| it_to := [{}];\n     it_from := [{}] |}}.", to.join("; "), from.join("; ")).unwrap();
    } else {
        let norm = match t.norm {
            Norm::None => "NormNone",
            Norm::Lower => "NormLower",
            Norm::Upper => "NormUpper",
        };
        writeln!(
            w,
            "Definition tbl_{id} : str_table :=\n  {{| st_to := [{}];\n     st_from := [{}];\n     st_norm := {norm};\n     st_passthrough := {} |}}.",
            to.join("; "),
            from.join("; "),
            if t.passthrough.is_some() { "true" } else { "false" }
        )
        .unwrap();
    }
    Ok(())
}

// ------------------------------------------------------------------------------------------
// field descriptors

fn rty(ty: &syn::Type) -> Result<String, String> {
    let p = match ty {
        syn::Type::Path(p) if p.qself.is_none() => p,
        other => return Err(format!("unsupported type {}", toks(other))),
    };
    let last = p.path.segments.last().ok_or("empty path")?;
    let id = last.ident.to_string();
    match &last.arguments {
        syn::PathArguments::None => Ok(format!("TName {}", gstr(&id)?)),
        syn::PathArguments::AngleBracketed(a) if a.args.len() == 1 => {
            let inner = match &a.args[0] {
                syn::GenericArgument::Type(t) => rty(t)?,
                _ => return Err(format!("unsupported generic argument in {}", toks(ty))),
            };
            let c = match id.as_str() {
                "Option" => "TOption",
                "Vec" => "TVec",
                "NonEmptyVec" => "TNonEmptyVec",
                _ => return Err(format!("unsupported generic type {}", toks(ty))),
            };
            Ok(format!("{c} ({inner})"))
        }
        _ => Err(format!("unsupported type {}", toks(ty))),
    }
}

struct FieldAttrs {
    rename: Option<String>,
    many: bool,
    dynamic: bool,
}

fn isomdl_attrs(attrs: &[syn::Attribute]) -> Result<FieldAttrs, String> {
    let mut fa = FieldAttrs { rename: None, many: false, dynamic: false };
    for a in attrs {
        if !a.path().is_ident("isomdl") {
            continue;
        }
        a.parse_nested_meta(|m| {
            if m.path.is_ident("many") {
                fa.many = true;
                Ok(())
            } else if m.path.is_ident("dynamic_parse") {
                fa.dynamic = true;
                Ok(())
            } else if m.path.is_ident("rename") {
                let v: syn::LitStr = m.value()?.parse()?;
                if fa.rename.is_some() {
                    return Err(m.error("two renames"));
                }
                fa.rename = Some(v.value());
                Ok(())
            } else {
                Err(m.error("unknown isomdl field attribute"))
            }
        })
        .map_err(|e| e.to_string())?;
    }
    Ok(fa)
}

fn emit_struct(ns: &str, file: &syn::File, st: &syn::ItemStruct, w: &mut String) -> Result<String, String> {
    let name = st.ident.to_string();
    match &st.fields {
        syn::Fields::Named(f) => {
            if !has_derive(&st.attrs, "ToCbor") {
                return Err(format!("{name} derives FromJson but not ToCbor"));
            }
            let mut rows = vec![];
            for fld in &f.named {
                let fa = isomdl_attrs(&fld.attrs)?;
                let rust = fld.ident.as_ref().unwrap().to_string();
                let wire = fa.rename.clone().unwrap_or_else(|| rust.clone());
                rows.push(format!(
                    "  {{| fd_rust := {}; fd_wire := {}; fd_ty := {}; fd_many := {}; fd_dyn := {} |}}",
                    gstr(&rust)?,
                    gstr(&wire)?,
                    rty(&fld.ty)?,
                    fa.many,
                    fa.dynamic
                ));
            }
            writeln!(w, "Definition struct_{ns}_{name} : list field_desc := [\n{}\n].", rows.join(";\n")).unwrap();
            Ok(format!("({}, SNamed struct_{ns}_{name})", gstr(&name)?))
        }
        syn::Fields::Unnamed(u) if u.unnamed.len() == 1 => {
            if !isomdl_attrs(&u.unnamed[0].attrs)?.rename.is_none() {
                return Err("attribute on newtype field".into());
            }
            // hand-written conversion must be "array of the elements' to_cbor"
            let conv = impls_for(file, &name)
                .into_iter()
                .find(|im| toks(&im.self_ty).contains("Value") || im.trait_.as_ref().map(|(_, p, _)| toks(p).contains("ToCbor")).unwrap_or(false))
                .map(|im| toks(im))
                .unwrap_or_default();
            if !(conv.contains("Value :: Array") && conv.contains("to_cbor") && conv.contains("into_iter")) {
                return Err(format!("{name}: conversion to ciborium::Value is not `Array(elements.map(to_cbor))`"));
            }
            Ok(format!("({}, SNewtype ({}))", gstr(&name)?, rty(&u.unnamed[0].ty)?))
        }
        _ => Err(format!("{name}: unsupported struct shape")),
    }
}

pub fn namespaces(repo: &str, out: &mut Out) {
    let mut tables = String::from("From Isomdl Require Import Lib.GenTypes.\n\n");
    let mut fields = String::from("From Isomdl Require Import Lib.GenTypes.\n\n");
    let mut tbl_names: Vec<(String, String, bool)> = vec![];
    let mut tbl_err: Vec<String> = vec![];
    let mut rows = 0usize;
    for (ns, dir) in DIRS {
        let d = format!("{repo}/src/definitions/namespaces/{dir}");
        let mut files: Vec<String> = match std::fs::read_dir(&d) {
            Ok(rd) => rd.filter_map(|e| e.ok()).map(|e| e.path().to_string_lossy().to_string()).filter(|p| p.ends_with(".rs")).collect(),
            Err(e) => {
                out.fail("tables", &format!("cannot read {d}: {e}"));
                out.fail(&format!("fields_{ns}"), &format!("cannot read {d}: {e}"));
                continue;
            }
        };
        files.sort();
        let mut structs: Vec<String> = vec![];
        let mut field_err: Vec<String> = vec![];
        let mut main_seen = false;
        for path in &files {
            let file = parse_file(path);
            for it in &file.items {
                match it {
                    syn::Item::Enum(en) => {
                        // error enums (thiserror) are not tables
                        if has_derive(&en.attrs, "Error") || en.ident == "Error" {
                            continue;
                        }
                        // TDateOrFullDate is a sum of two leaf types, not a code table
                        if en.variants.iter().all(|v| matches!(&v.fields, syn::Fields::Unnamed(u) if u.unnamed.len() == 1 && toks(&u.unnamed[0].ty) != "String")) {
                            continue;
                        }
                        match extract_enum_table(ns, &file, en) {
                            Ok(t) => {
                                rows += t.to.len() + t.from.len();
                                match emit_table(&t, &mut tables) {
                                    Ok(()) => tbl_names.push((ns.to_string(), t.name.clone(), t.is_int)),
                                    Err(e) => tbl_err.push(format!("{ns}::{}: {e}", t.name)),
                                }
                            }
                            Err(e) => tbl_err.push(format!("{ns}::{}: {e}", en.ident)),
                        }
                    }
                    syn::Item::Struct(st) if has_derive(&st.attrs, "FromJson") => {
                        let main = (ns == "mdl" && st.ident == "OrgIso1801351") || (ns == "aamva" && st.ident == "OrgIso1801351Aamva");
                        main_seen |= main;
                        match emit_struct(ns, &file, st, &mut fields) {
                            Ok(entry) => structs.push(entry),
                            Err(e) => field_err.push(format!("{}: {e}", st.ident)),
                        }
                    }
                    _ => {}
                }
            }
        }
        writeln!(fields, "Definition structs_{ns} : list (bytes * struct_def) := [\n  {}\n].\n", structs.join(";\n  ")).unwrap();
        if !main_seen {
            field_err.push("namespace struct not found".into());
        }
        if field_err.is_empty() {
            out.ok(&format!("fields_{ns}"), &format!("{} structs", structs.len()));
        } else {
            out.fail(&format!("fields_{ns}"), &field_err.join("; "));
        }
    }
    for (ns, kind, is_int) in [("mdl", "str", false), ("mdl", "int", true), ("aamva", "str", false), ("aamva", "int", true)] {
        let l: Vec<String> = tbl_names.iter().filter(|(n, _, i)| n == ns && *i == is_int).map(|(n, t, _)| format!("({}, tbl_{n}_{t})", gstr(t).unwrap())).collect();
        writeln!(tables, "Definition {kind}_tables_{ns} : list (bytes * {kind}_table) := [{}].", l.join("; ")).unwrap();
    }
    if tbl_err.is_empty() && !tbl_names.is_empty() {
        out.ok("tables", &format!("{} tables, {} rows (both directions)", tbl_names.len(), rows));
    } else {
        out.fail("tables", &tbl_err.join("; "));
    }
    out.files.insert("Tables".into(), tables);
    out.files.insert("Fields".into(), fields);
}

// ------------------------------------------------------------------------------------------
// literals of the hand-written leaf types

struct TagCall(Option<u64>, usize);
impl<'ast> syn::visit::Visit<'ast> for TagCall {
    fn visit_expr_call(&mut self, c: &'ast syn::ExprCall) {
        let f = toks(&c.func).replace(' ', "");
        if f.ends_with("Value::Tag") {
            self.1 += 1;
            if let Some(a) = c.args.first() {
                if let Some(n) = int_of(a) {
                    if n >= 0 {
                        self.0 = Some(n as u64);
                    }
                }
            }
        }
        syn::visit::visit_expr_call(self, c);
    }
}

struct GtLit(Vec<u64>);
impl<'ast> syn::visit::Visit<'ast> for GtLit {
    fn visit_expr_binary(&mut self, b: &'ast syn::ExprBinary) {
        if matches!(b.op, syn::BinOp::Gt(_)) {
            if let Some(n) = int_of(&b.right) {
                if n >= 0 {
                    self.0.push(n as u64);
                }
            }
        }
        syn::visit::visit_expr_binary(self, b);
    }
}

struct MethodStrArgs<'a>(&'a str, Vec<String>);
impl<'ast, 'a> syn::visit::Visit<'ast> for MethodStrArgs<'a> {
    fn visit_expr_method_call(&mut self, mc: &'ast syn::ExprMethodCall) {
        if mc.method == self.0 && mc.args.len() == 1 {
            if let Some(s) = lit_str_expr(&mc.args[0]) {
                self.1.push(s);
            }
        }
        syn::visit::visit_expr_method_call(self, mc);
    }
}

pub fn leaf_constants(repo: &str, out: &mut Out) {
    use syn::visit::Visit;
    let base = format!("{repo}/src/definitions/namespaces");
    let mut errs: Vec<String> = vec![];
    // full-date tag
    let f = parse_file(&format!("{base}/fulldate.rs"));
    match find_trait_impl_fn(&f, "From<FullDate>", "ciborium::Value", "from") {
        Some(func) => {
            let mut v = TagCall(None, 0);
            v.visit_block(&func.block);
            match v {
                TagCall(Some(n), 1) => out.def_n("fulldate_tag", n as u128, "fulldate.rs From<FullDate> for ciborium::Value: Value::Tag(N, Text(..))"),
                _ => errs.push("fulldate.rs: expected exactly one Value::Tag(<int>, ..)".into()),
            }
        }
        None => errs.push("fulldate.rs: impl From<FullDate> for ciborium::Value not found".into()),
    }
    // tdate tag
    let f = parse_file(&format!("{base}/org_iso_18013_5_1/tdate.rs"));
    match find_trait_impl_fn(&f, "From<TDate>", "ciborium::Value", "from") {
        Some(func) => {
            let mut v = TagCall(None, 0);
            v.visit_block(&func.block);
            match v {
                TagCall(Some(n), 1) => out.def_n("tdate_tag", n as u128, "tdate.rs From<TDate> for ciborium::Value: Value::Tag(N, ..)"),
                _ => errs.push("tdate.rs: expected exactly one Value::Tag(<int>, ..)".into()),
            }
        }
        None => errs.push("tdate.rs: impl From<TDate> for ciborium::Value not found".into()),
    }
    // Latin1 length limit
    let f = parse_file(&format!("{base}/latin1.rs"));
    match find_trait_impl_fn(&f, "FromStr", "Latin1", "from_str") {
        Some(func) => {
            let mut v = GtLit(vec![]);
            v.visit_block(&func.block);
            // the limit counts characters: `let length = s.chars().count();`
            let body = toks(&func.block);
            let counts_chars = body.contains("let length = s . chars () . count () ;") && !body.contains("s . len ()");
            // the literal is copied whenever it is found; what it is compared with is a shape
            // obligation of its own (the model counts characters)
            match v.0.as_slice() {
                [n] => out.def_n("latin1_max_len", *n as u128, "latin1.rs Latin1::from_str: if length > N"),
                _ => errs.push("latin1.rs: expected exactly one `> <int>` in Latin1::from_str".into()),
            }
            if !counts_chars {
                errs.push("latin1.rs: expected `let length = s.chars().count();` (the limit counts characters)".into());
            }
        }
        None => errs.push("latin1.rs: impl FromStr for Latin1 not found".into()),
    }
    // dynamic prefixes
    for (file, ty, name) in [("org_iso_18013_5_1/age_over.rs", "AgeOver", "c19_age_over_prefix"), ("org_iso_18013_5_1/biometric_template.rs", "BiometricTemplate", "c19_biometric_prefix")] {
        let f = parse_file(&format!("{base}/{file}"));
        let from = find_trait_impl_fn(&f, "FromJsonMap", ty, "from_map");
        let to = find_trait_impl_fn(&f, "ToNamespaceMap", ty, "to_ns_map");
        match (from, to) {
            (Some(from), Some(to)) => {
                let mut v = MethodStrArgs("strip_prefix", vec![]);
                v.visit_block(&from.block);
                let fmt = toks(&to.block);
                match v.1.as_slice() {
                    [p] if fmt.contains(&format!("\"{p}{{")) => out.def_bytes(name, p.as_bytes(), &format!("{file}: strip_prefix(\"..\") in from_map and format!(\"..{{}}\") in to_ns_map")),
                    _ => errs.push(format!("{file}: expected one strip_prefix(\"p\") and format!(\"p{{..}}\") with the same p")),
                }
            }
            _ => errs.push(format!("{file}: from_map / to_ns_map not found")),
        }
    }
    // shapes of the hand-written leaf code the model reproduces (no constants to copy; a change of
    // shape must be looked at, so it fails the item)
    let shape = |errs: &mut Vec<String>, file: &str, what: &str, needles: &[&str], absent: &[&str]| {
        let src = std::fs::read_to_string(format!("{base}/{file}")).unwrap_or_default();
        let code = match syn::parse_file(&src) {
            Ok(f) => f
                .items
                .iter()
                .filter(|it| !matches!(it, syn::Item::Mod(m) if m.attrs.iter().any(|a| toks(a).contains("test"))))
                .map(|it| toks(it))
                .collect::<Vec<_>>()
                .join("\n"),
            Err(e) => {
                errs.push(format!("{file}: {e}"));
                return;
            }
        };
        for n in needles {
            if !code.contains(n) {
                errs.push(format!("{file}: {what}: expected `{n}`"));
            }
        }
        for n in absent {
            if code.contains(n) {
                errs.push(format!("{file}: {what}: unexpected `{n}`"));
            }
        }
    };
    shape(&mut errs, "fulldate.rs", "Display / FromStr of FullDate",
          &["\"{:04}-{:0>2}-{:0>2}\"", "s . as_bytes () . first () . map_or (false , u8 :: is_ascii_digit)", "Date :: parse (s , FORMAT)"], &[]);
    shape(&mut errs, "org_iso_18013_5_1/tdate.rs", "TDate::from_json",
          &["date_str . as_bytes () . get (10) , Some (b'T' | b't' | b' ')", "date_str . as_bytes () . get (17 .. 19) == Some (& b\"60\" [..])",
            "OffsetDateTime :: parse (& date_str , & Rfc3339)", ". checked_to_offset (UtcOffset :: UTC)", ". replace_millisecond (0)", ". format (& Rfc3339)"],
          &[". to_offset (", ". format (& Rfc3339) . unwrap ()"]);
    shape(&mut errs, "org_iso_18013_5_1/biometric_template.rs", "BiometricTemplate::from_map",
          &["k . strip_prefix (\"biometric_template_\") . filter (| k | ! k . is_empty ())"], &[]);
    shape(&mut errs, "org_iso_18013_5_1/issuing_jurisdiction.rs", "IssuingJurisdiction::from_map",
          &["map . get (\"issuing_jurisdiction\") . filter (| v | ! v . is_null ()) . ok_or (FromJsonError :: Missing) . and_then (String :: from_json) ?",
            "map . get (\"issuing_country\") . ok_or (FromJsonError :: Missing) . and_then (Alpha2 :: from_json) ?",
            "jurisdiction . starts_with (country . as_str ())"], &[]);
    if errs.is_empty() {
        out.ok("leaf_constants", "fulldate tag, tdate tag, Latin1 limit (characters), two dynamic prefixes, shapes of the five hand-written conversions");
    } else {
        out.fail("leaf_constants", &errs.join("; "));
    }
}
