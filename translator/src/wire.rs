//! C16: code / status / curve / label tables and wire field names -> coq/Gen/WireTables.v.
//! Purely syntactic: literals are copied, nothing is interpreted.
use crate::find::*;
use crate::Out;
use std::fmt::Write as _;
use syn::visit::Visit;

fn coq_str(s: &str) -> String {
    format!("\"{}\"%string", s.replace('"', "\"\""))
}
fn coq_z(n: i128) -> String {
    if n < 0 {
        format!("({n})%Z")
    } else {
        format!("{n}%Z")
    }
}

fn last_seg(path: &str) -> String {
    let p = path.replace(' ', "");
    let p = p.split('(').next().unwrap_or(&p).to_string();
    p.rsplit("::").next().unwrap_or(&p).to_string()
}

/// first integer literal anywhere inside an expression (e.g. `Value::Integer(1.into())`, `-7`)
fn first_int(e: &syn::Expr) -> Option<i128> {
    if let Some(n) = int_of(e) {
        return Some(n);
    }
    struct V(Option<i128>);
    impl<'ast> Visit<'ast> for V {
        fn visit_expr(&mut self, e: &'ast syn::Expr) {
            if self.0.is_some() {
                return;
            }
            if let Some(n) = int_of(e) {
                self.0 = Some(n);
                return;
            }
            syn::visit::visit_expr(self, e);
        }
    }
    let mut v = V(None);
    v.visit_expr(e);
    v.0
}

fn first_str(e: &syn::Expr) -> Option<String> {
    struct V(Option<String>);
    impl<'ast> Visit<'ast> for V {
        fn visit_lit_str(&mut self, s: &'ast syn::LitStr) {
            if self.0.is_none() {
                self.0 = Some(s.value());
            }
        }
    }
    let mut v = V(None);
    v.visit_expr(e);
    v.0
}

/// the path inside `Ok(Path::Variant)` / `Ok(Self::Variant)` / `Path::Variant`
fn ok_path(e: &syn::Expr) -> Option<String> {
    match e {
        syn::Expr::Call(c) => {
            let f = quote::ToTokens::to_token_stream(&c.func).to_string();
            if f == "Ok" && c.args.len() == 1 {
                if let syn::Expr::Path(p) = &c.args[0] {
                    return Some(last_seg(&quote::ToTokens::to_token_stream(p).to_string()));
                }
            }
            None
        }
        _ => None,
    }
}

struct AllMatches<'a>(Vec<&'a syn::ExprMatch>);
impl<'ast> Visit<'ast> for AllMatches<'ast> {
    fn visit_expr_match(&mut self, m: &'ast syn::ExprMatch) {
        self.0.push(m);
        syn::visit::visit_expr_match(self, m);
    }
}

/// arms `Enum::Variant[..] => <expr containing an int>` of the first match; arms whose body has no int are skipped
fn arms_variant_to_int(b: &syn::Block) -> Vec<(String, i128)> {
    let mut v = AllMatches(vec![]);
    v.visit_block(b);
    let mut rows = vec![];
    if let Some(m) = v.0.first() {
        for arm in &m.arms {
            let pat = quote::ToTokens::to_token_stream(&arm.pat).to_string();
            if let Some(n) = first_int(&arm.body) {
                rows.push((last_seg(&pat), n));
            }
        }
    }
    rows
}

/// arms `<int> => Ok(Enum::Variant)` of the first match
fn arms_int_to_variant(b: &syn::Block) -> Vec<(i128, String)> {
    let mut v = AllMatches(vec![]);
    v.visit_block(b);
    let mut rows = vec![];
    if let Some(m) = v.0.first() {
        for arm in &m.arms {
            if arm.guard.is_some() {
                continue;
            }
            if let syn::Pat::Lit(l) = &arm.pat {
                if let (Some(n), Some(p)) = (int_of(&syn::Expr::Lit(l.clone())), ok_path(&arm.body)) {
                    rows.push((n, p));
                }
            }
        }
    }
    rows
}

fn emit_to(w: &mut String, name: &str, src: &str, rows: &[(String, i128)]) {
    let r: Vec<String> = rows.iter().map(|(k, v)| format!("({}, {})", coq_str(k), coq_z(*v))).collect();
    writeln!(w, "(* {src} *)\nDefinition {name} : list (String.string * Z) := [{}].", r.join("; ")).unwrap();
}
fn emit_of(w: &mut String, name: &str, src: &str, rows: &[(i128, String)]) {
    let r: Vec<String> = rows.iter().map(|(k, v)| format!("({}, {})", coq_z(*k), coq_str(v))).collect();
    writeln!(w, "(* {src} *)\nDefinition {name} : list (Z * String.string) := [{}].", r.join("; ")).unwrap();
}
fn emit_ss(w: &mut String, name: &str, src: &str, rows: &[(String, String)]) {
    let r: Vec<String> = rows.iter().map(|(k, v)| format!("({}, {})", coq_str(k), coq_str(v))).collect();
    writeln!(w, "(* {src} *)\nDefinition {name} : list (String.string * String.string) := [{}].", r.join("; ")).unwrap();
}
fn emit_zs(w: &mut String, name: &str, src: &str, rows: &[i128]) {
    let r: Vec<String> = rows.iter().map(|k| coq_z(*k)).collect();
    writeln!(w, "(* {src} *)\nDefinition {name} : list Z := [{}].", r.join("; ")).unwrap();
}

fn code_table(file: &syn::File, w: &mut String, out: &mut Out, item: &str, ty: &str, int_ty: &str, coq: &str, src: &str) {
    let to = find_trait_impl_fn(file, &format!("From<{ty}>"), int_ty, "from").map(|f| arms_variant_to_int(&f.block)).unwrap_or_default();
    let of = find_trait_impl_fn(file, &format!("TryFrom<{int_ty}>"), ty, "try_from").map(|f| arms_int_to_variant(&f.block)).unwrap_or_default();
    if to.is_empty() || of.is_empty() {
        out.fail(item, &format!("expected `impl From<{ty}> for {int_ty}` and `impl TryFrom<{int_ty}> for {ty}` with literal match arms in {src}"));
        return;
    }
    emit_to(w, &format!("{coq}_to"), &format!("{src}: impl From<{ty}> for {int_ty}"), &to);
    emit_of(w, &format!("{coq}_of"), &format!("{src}: impl TryFrom<{int_ty}> for {ty}"), &of);
    out.ok(item, &format!("{} to-rows, {} from-rows", to.len(), of.len()));
}

/// integer literals that are the receiver of `.into()` inside `Value::Integer( .. )`, in source
/// order; token-level so that `vec![..]` bodies are covered too
fn integer_labels(b: &syn::Block) -> Vec<i128> {
    let s: String = quote::ToTokens::to_token_stream(b).to_string().chars().filter(|c| !c.is_whitespace()).collect();
    let mut v = vec![];
    let pat = "Value::Integer(";
    let mut i = 0;
    while let Some(k) = s[i..].find(pat) {
        let start = i + k + pat.len();
        let rest = &s[start..];
        let rest2 = rest.strip_prefix('(').unwrap_or(rest);
        let num: String = rest2.chars().take_while(|c| c.is_ascii_digit() || *c == '-').collect();
        let after = &rest2[num.len()..];
        let after = after.strip_prefix(')').unwrap_or(after);
        if !num.is_empty() && after.starts_with(".into())") {
            if let Ok(n) = num.parse::<i128>() {
                v.push(n);
            }
        }
        i = start;
    }
    v
}

/// integer literals passed as `&<int>` (map.remove(&0), map.get(&1)) or as the last argument of a
/// call whose first argument is `&map` (lookup_opt_u64(&map, 1)), in source order
fn lookup_labels(b: &syn::Block) -> Vec<i128> {
    struct V(Vec<i128>);
    impl<'ast> Visit<'ast> for V {
        fn visit_expr_method_call(&mut self, mc: &'ast syn::ExprMethodCall) {
            syn::visit::visit_expr_method_call(self, mc);
            if (mc.method == "remove" || mc.method == "get") && mc.args.len() == 1 {
                if let syn::Expr::Reference(r) = &mc.args[0] {
                    if let Some(n) = int_of(&r.expr) {
                        self.0.push(n);
                    }
                }
            }
        }
        fn visit_expr_call(&mut self, c: &'ast syn::ExprCall) {
            if c.args.len() == 2 {
                let a0 = quote::ToTokens::to_token_stream(&c.args[0]).to_string().replace(' ', "");
                if a0 == "&map" {
                    if let Some(n) = int_of(&c.args[1]) {
                        self.0.push(n);
                    }
                }
            }
            syn::visit::visit_expr_call(self, c);
        }
    }
    let mut v = V(vec![]);
    v.visit_block(b);
    v.0
}

fn labels(file: &syn::File, w: &mut String, out: &mut Out, ty: &str, coq: &str, src: &str) {
    let to = find_trait_impl_fn(file, &format!("From<{ty}>"), "ciborium::Value", "from").map(|f| integer_labels(&f.block));
    let of = find_trait_impl_fn(file, "TryFrom<ciborium::Value>", ty, "try_from").map(|f| lookup_labels(&f.block));
    match (to, of) {
        (Some(to), Some(of)) if !to.is_empty() && !of.is_empty() => {
            emit_zs(w, &format!("{coq}_labels_to"), &format!("{src}: impl From<{ty}> for ciborium::Value, Value::Integer(n.into()) in source order"), &to);
            emit_zs(w, &format!("{coq}_labels_of"), &format!("{src}: impl TryFrom<ciborium::Value> for {ty}, map.remove(&n) / map.get(&n) / lookup(&map, n) in source order"), &of);
            out.ok(&format!("wire_labels_{coq}"), &format!("{} / {} labels", to.len(), of.len()));
        }
        _ => out.fail(&format!("wire_labels_{coq}"), &format!("integer map labels of {ty} not found in {src}")),
    }
}

fn camel(s: &str) -> String {
    let mut o = String::new();
    let mut up = false;
    for c in s.chars() {
        if c == '_' {
            up = true;
        } else if up {
            o.extend(c.to_uppercase());
            up = false;
        } else {
            o.push(c);
        }
    }
    o
}
fn camel_variant(s: &str) -> String {
    let mut c = s.chars();
    match c.next() {
        Some(f) => f.to_lowercase().collect::<String>() + c.as_str(),
        None => String::new(),
    }
}

/// key = "value" pairs and bare words inside #[serde(...)]
fn serde_attrs(attrs: &[syn::Attribute]) -> Vec<(String, Option<String>)> {
    let mut v = vec![];
    for a in attrs {
        if a.path().is_ident("serde") {
            let _ = a.parse_nested_meta(|m| {
                let k = m.path.get_ident().map(|i| i.to_string()).unwrap_or_default();
                if m.input.peek(syn::Token![=]) {
                    let val: syn::LitStr = m.value()?.parse()?;
                    v.push((k, Some(val.value())));
                } else {
                    v.push((k, None));
                }
                Ok(())
            });
        }
    }
    v
}

fn find_struct<'a>(file: &'a syn::File, name: &str) -> Option<&'a syn::ItemStruct> {
    file.items.iter().find_map(|it| match it {
        syn::Item::Struct(s) if s.ident == name => Some(s),
        _ => None,
    })
}
fn find_enum<'a>(file: &'a syn::File, name: &str) -> Option<&'a syn::ItemEnum> {
    file.items.iter().find_map(|it| match it {
        syn::Item::Enum(s) if s.ident == name => Some(s),
        _ => None,
    })
}

/// (wire name, is Option with skip_serializing_if) for each named field, in declaration order
fn struct_fields(s: &syn::ItemStruct) -> Vec<(String, bool)> {
    let sa = serde_attrs(&s.attrs);
    let rename_all = sa.iter().find(|(k, _)| k == "rename_all").and_then(|(_, v)| v.clone());
    let mut rows = vec![];
    if let syn::Fields::Named(n) = &s.fields {
        for f in &n.named {
            let fa = serde_attrs(&f.attrs);
            let ident = f.ident.as_ref().unwrap().to_string();
            let wire = fa
                .iter()
                .find(|(k, _)| k == "rename")
                .and_then(|(_, v)| v.clone())
                .unwrap_or_else(|| if rename_all.as_deref() == Some("camelCase") { camel(&ident) } else { ident.clone() });
            let ty = quote::ToTokens::to_token_stream(&f.ty).to_string().replace(' ', "");
            let opt = ty.starts_with("Option<") && fa.iter().any(|(k, v)| k == "skip_serializing_if" && v.as_deref() == Some("Option::is_none"));
            rows.push((wire, opt));
        }
    }
    rows
}

fn enum_variant_names(e: &syn::ItemEnum) -> Vec<(String, String)> {
    let sa = serde_attrs(&e.attrs);
    let rename_all = sa.iter().find(|(k, _)| k == "rename_all").and_then(|(_, v)| v.clone());
    e.variants
        .iter()
        .map(|v| {
            let fa = serde_attrs(&v.attrs);
            let ident = v.ident.to_string();
            let wire = fa
                .iter()
                .find(|(k, _)| k == "rename")
                .and_then(|(_, v)| v.clone())
                .unwrap_or_else(|| if rename_all.as_deref() == Some("camelCase") { camel_variant(&ident) } else { ident.clone() });
            (ident, wire)
        })
        .collect()
}

fn string_literals(ts: proc_macro2::TokenStream, acc: &mut Vec<String>) {
    for t in ts {
        match t {
            proc_macro2::TokenTree::Group(g) => string_literals(g.stream(), acc),
            proc_macro2::TokenTree::Literal(l) => {
                let s = l.to_string();
                if s.starts_with('"') && s.ends_with('"') && s.len() >= 2 {
                    acc.push(s[1..s.len() - 1].to_string());
                }
            }
            _ => {}
        }
    }
}

pub fn wire_tables(repo: &str, out: &mut Out) {
    let mut w = String::new();
    w.push_str("From Coq Require Import ZArith String.\n\n");
    let defs = format!("{repo}/src/definitions");

    // ---- status / error code tables
    let session = parse_file(&format!("{defs}/session.rs"));
    code_table(&session, &mut w, out, "wire_session_status", "Status", "u64", "session_status", "session.rs");
    let resp = parse_file(&format!("{defs}/device_response.rs"));
    code_table(&resp, &mut w, out, "wire_response_status", "Status", "u64", "response_status", "device_response.rs");
    code_table(&resp, &mut w, out, "wire_document_error_code", "DocumentErrorCode", "i128", "doc_error", "device_response.rs");
    // the guard of the application-specific arm: `i if i < 0`
    {
        let mut ok = false;
        if let Some(f) = find_trait_impl_fn(&resp, "TryFrom<i128>", "DocumentErrorCode", "try_from") {
            let mut v = AllMatches(vec![]);
            v.visit_block(&f.block);
            if let Some(m) = v.0.first() {
                for arm in &m.arms {
                    if let Some((_, g)) = &arm.guard {
                        let gs = quote::ToTokens::to_token_stream(g).to_string().replace(' ', "");
                        let body = quote::ToTokens::to_token_stream(&arm.body).to_string().replace(' ', "");
                        if gs == "i<0" && body.contains("ApplicationSpecific(i)") {
                            ok = true;
                        }
                    }
                }
            }
        }
        if ok {
            writeln!(w, "(* device_response.rs: `i if i < 0 => Ok(DocumentErrorCode::ApplicationSpecific(i))` *)\nDefinition doc_error_app_specific_guard : String.string := \"i<0\"%string.").unwrap();
            out.ok("wire_document_error_guard", "i < 0");
        } else {
            out.fail("wire_document_error_guard", "expected arm `i if i < 0 => Ok(DocumentErrorCode::ApplicationSpecific(i))`");
        }
    }

    // ---- COSE key: curves, labels, JWK names
    let ck = parse_file(&format!("{defs}/device_key/cose_key.rs"));
    for (ty, coq) in [("EC2Curve", "ec2_curve"), ("OKPCurve", "okp_curve")] {
        let to = find_trait_impl_fn(&ck, &format!("From<{ty}>"), "ciborium::Value", "from").map(|f| arms_variant_to_int(&f.block)).unwrap_or_default();
        let of = find_trait_impl_fn(&ck, "TryFrom<i128>", ty, "try_from").map(|f| arms_int_to_variant(&f.block)).unwrap_or_default();
        if to.is_empty() || of.is_empty() {
            out.fail(&format!("wire_{coq}"), "curve tables not found");
        } else {
            emit_to(&mut w, &format!("{coq}_to"), &format!("cose_key.rs: impl From<{ty}> for ciborium::Value"), &to);
            emit_of(&mut w, &format!("{coq}_of"), &format!("cose_key.rs: impl TryFrom<i128> for {ty}"), &of);
            out.ok(&format!("wire_{coq}"), &format!("{} / {} rows", to.len(), of.len()));
        }
    }
    labels(&ck, &mut w, out, "CoseKey", "cose_key", "cose_key.rs");
    // JWK curve names, CoseKey -> JWK: matches whose arms are `XCurve::V => "name".to_string()`
    {
        let mut ec: Vec<(String, String)> = vec![];
        let mut okp: Vec<(String, String)> = vec![];
        if let Some(f) = find_trait_impl_fn(&ck, "TryFrom<CoseKey>", "JWK", "try_from") {
            let mut v = AllMatches(vec![]);
            v.visit_block(&f.block);
            for m in v.0 {
                for arm in &m.arms {
                    let pat = quote::ToTokens::to_token_stream(&arm.pat).to_string().replace(' ', "");
                    if let Some(s) = first_str(&arm.body) {
                        if matches!(&*arm.body, syn::Expr::MethodCall(_)) {
                            if pat.starts_with("EC2Curve::") {
                                ec.push((last_seg(&pat), s));
                            } else if pat.starts_with("OKPCurve::") {
                                okp.push((last_seg(&pat), s));
                            }
                        }
                    }
                }
            }
        }
        // JWK -> CoseKey
        let mut ec_of: Vec<(String, String)> = vec![];
        if let Some(f) = find_trait_impl_fn(&ck, "TryFrom<&ssi_jwk::ECParams>", "EC2Curve", "try_from") {
            let mut v = AllMatches(vec![]);
            v.visit_block(&f.block);
            if let Some(m) = v.0.first() {
                for arm in &m.arms {
                    if let (Some((_, g)), Some(p)) = (&arm.guard, ok_path(&arm.body)) {
                        if let Some(s) = first_str(g) {
                            ec_of.push((s, p));
                        }
                    }
                }
            }
        }
        let mut okp_of: Vec<(String, String)> = vec![];
        if let Some(f) = find_trait_impl_fn(&ck, "TryFrom<&ssi_jwk::OctetParams>", "OKPCurve", "try_from") {
            let mut v = AllMatches(vec![]);
            v.visit_block(&f.block);
            if let Some(m) = v.0.first() {
                for arm in &m.arms {
                    if let (syn::Pat::Lit(l), Some(p)) = (&arm.pat, ok_path(&arm.body)) {
                        if let syn::Lit::Str(s) = &l.lit {
                            okp_of.push((s.value(), p));
                        }
                    }
                }
            }
        }
        if ec.is_empty() || okp.is_empty() || ec_of.is_empty() || okp_of.is_empty() {
            out.fail("wire_jwk_curve_names", "JWK curve name matches not found in cose_key.rs");
        } else {
            emit_ss(&mut w, "ec2_jwk_to", "cose_key.rs: impl TryFrom<CoseKey> for JWK, EC2 curve names", &ec);
            emit_ss(&mut w, "okp_jwk_to", "cose_key.rs: impl TryFrom<CoseKey> for JWK, OKP curve names", &okp);
            emit_ss(&mut w, "ec2_jwk_of", "cose_key.rs: impl TryFrom<&ssi_jwk::ECParams> for EC2Curve (name, variant)", &ec_of);
            emit_ss(&mut w, "okp_jwk_of", "cose_key.rs: impl TryFrom<&ssi_jwk::OctetParams> for OKPCurve (name, variant)", &okp_of);
            out.ok("wire_jwk_curve_names", &format!("{}+{} to, {}+{} from", ec.len(), okp.len(), ec_of.len(), okp_of.len()));
        }
    }

    // ---- device engagement: labels, transport types, NFC ranges
    let de = parse_file(&format!("{defs}/device_engagement.rs"));
    labels(&de, &mut w, out, "DeviceEngagement", "device_engagement", "device_engagement.rs");
    labels(&de, &mut w, out, "BleOptions", "ble_options", "device_engagement.rs");
    labels(&de, &mut w, out, "WifiOptions", "wifi_options", "device_engagement.rs");
    match find_impl_fn(&de, "DeviceRetrievalMethod", "transport_type") {
        Some(f) => {
            let rows = arms_variant_to_int(&f.block);
            if rows.is_empty() {
                out.fail("wire_transport_type", "no arms");
            } else {
                emit_to(&mut w, "transport_type_to", "device_engagement.rs: DeviceRetrievalMethod::transport_type", &rows);
                out.ok("wire_transport_type", &format!("{} rows", rows.len()));
            }
        }
        None => out.fail("wire_transport_type", "fn transport_type not found"),
    }
    // the decode side of the transport types: slice patterns guarded by `== n`
    {
        let mut rows: Vec<(i128, i128, String)> = vec![];
        if let Some(f) = find_trait_impl_fn(&de, "TryFrom<ciborium::Value>", "DeviceRetrievalMethod", "try_from") {
            let mut v = AllMatches(vec![]);
            v.visit_block(&f.block);
            for m in v.0 {
                for arm in &m.arms {
                    if let Some((_, g)) = &arm.guard {
                        // guard: into(*iA) == x && into(*iB) == y ; pattern [Integer(p0), Integer(p1), methods]
                        let pat = quote::ToTokens::to_token_stream(&arm.pat).to_string().replace(' ', "");
                        let names: Vec<String> = pat.split("Integer(").skip(1).map(|s| s.split(')').next().unwrap_or("").to_string()).collect();
                        let gs = quote::ToTokens::to_token_stream(g).to_string().replace(' ', "");
                        let mut vals = std::collections::BTreeMap::new();
                        for part in gs.split("&&") {
                            if let Some((l, r)) = part.split_once("==") {
                                if let (Some(name), Ok(n)) = (l.split("(*").nth(1).map(|s| s.trim_end_matches(')').to_string()), r.parse::<i128>()) {
                                    vals.insert(name, n);
                                }
                            }
                        }
                        let body = quote::ToTokens::to_token_stream(&arm.body).to_string().replace(' ', "");
                        let variant = ["NFC", "BLE", "WIFI"].iter().find(|v| body.contains(&format!("DeviceRetrievalMethod::{v}("))).map(|s| s.to_string());
                        if let (2, Some(var)) = (names.len(), variant) {
                            if let (Some(a), Some(b)) = (vals.get(&names[0]), vals.get(&names[1])) {
                                rows.push((*a, *b, var));
                            }
                        }
                    }
                }
            }
        }
        if rows.len() >= 1 {
            let r: Vec<String> = rows.iter().map(|(a, b, v)| format!("({}, {}, {})", coq_z(*a), coq_z(*b), coq_str(v))).collect();
            writeln!(w, "(* device_engagement.rs: impl TryFrom<ciborium::Value> for DeviceRetrievalMethod: (type, version, variant) *)\nDefinition transport_type_of : list (Z * Z * String.string) := [{}].", r.join("; ")).unwrap();
            out.ok("wire_transport_type_of", &format!("{} rows", rows.len()));
        } else {
            out.fail("wire_transport_type_of", "guarded slice patterns not found");
        }
        // version() constant
        match find_impl_fn(&de, "DeviceRetrievalMethod", "version").and_then(|f| f.block.stmts.last().and_then(|s| if let syn::Stmt::Expr(e, _) = s { int_of(e) } else { None })) {
            Some(n) => {
                writeln!(w, "(* device_engagement.rs: DeviceRetrievalMethod::version *)\nDefinition retrieval_method_version : Z := {}.", coq_z(n)).unwrap();
                out.ok("wire_retrieval_version", "literal");
            }
            None => out.fail("wire_retrieval_version", "fn version() {{ <int> }} not found"),
        }
        // accepted engagement version literal: `if v != "1.0"`
        let mut lits = vec![];
        if let Some(f) = find_trait_impl_fn(&de, "TryFrom<ciborium::Value>", "DeviceEngagement", "try_from") {
            string_literals(quote::ToTokens::to_token_stream(&f.block), &mut lits);
        }
        if lits.len() == 2 && lits[0] == lits[1] {
            writeln!(w, "(* device_engagement.rs: version accepted (`v != \"..\"`) and version stored (`version: \"..\".into()`) *)\nDefinition engagement_version : String.string := {}.", coq_str(&lits[0])).unwrap();
            out.ok("wire_engagement_version", &lits[0]);
        } else {
            out.fail("wire_engagement_version", &format!("expected the same version literal twice in DeviceEngagement::try_from, found {lits:?}"));
        }
    }
    let nfc = parse_file(&format!("{defs}/device_engagement/nfc_options.rs"));
    labels(&nfc, &mut w, out, "NfcOptions", "nfc_options", "nfc_options.rs");
    {
        // pub const MIN: X = X(n); pub const MAX: X = X(n);
        let mut found = 0;
        for (ty, coq) in [("CommandDataLength", "nfc_command"), ("ResponseDataLength", "nfc_response")] {
            for it in &nfc.items {
                if let syn::Item::Impl(im) = it {
                    if im.trait_.is_none() && quote::ToTokens::to_token_stream(&im.self_ty).to_string() == ty {
                        for ii in &im.items {
                            if let syn::ImplItem::Const(c) = ii {
                                if let Some(n) = first_int(&c.expr) {
                                    writeln!(w, "(* nfc_options.rs: {ty}::{} *)\nDefinition {coq}_{} : Z := {}.", c.ident, c.ident.to_string().to_lowercase(), coq_z(n)).unwrap();
                                    found += 1;
                                }
                            }
                        }
                    }
                }
            }
        }
        if found == 4 {
            out.ok("wire_nfc_ranges", "4 constants");
        } else {
            out.fail("wire_nfc_ranges", &format!("expected MIN/MAX of both NFC length types, found {found}"));
        }
    }

    // ---- field names
    let mut field_rows: Vec<String> = vec![];
    let mut missing: Vec<String> = vec![];
    let structs: Vec<(&str, &str)> = vec![
        ("session.rs", "SessionEstablishment"),
        ("session.rs", "SessionData"),
        ("device_request.rs", "DeviceRequest"),
        ("device_request.rs", "DocRequest"),
        ("device_request.rs", "ItemsRequest"),
        ("device_response.rs", "DeviceResponse"),
        ("device_response.rs", "Document"),
        ("mso.rs", "Mso"),
        ("device_key/mod.rs", "DeviceKeyInfo"),
        ("device_key/mod.rs", "KeyAuthorizations"),
        ("issuer_signed.rs", "IssuerSigned"),
        ("issuer_signed.rs", "IssuerSignedItem"),
        ("device_signed.rs", "DeviceSigned"),
        ("device_engagement.rs", "ServerRetrievalMethods"),
    ];
    for (file, name) in &structs {
        let f = parse_file(&format!("{defs}/{file}"));
        match find_struct(&f, name) {
            Some(s) => {
                let rows = struct_fields(s);
                let r: Vec<String> = rows.iter().map(|(n, o)| format!("({}, {})", coq_str(n), if *o { "true" } else { "false" })).collect();
                field_rows.push(format!("  ({}, [{}])", coq_str(name), r.join("; ")));
            }
            None => missing.push(name.to_string()),
        }
    }
    writeln!(w, "(* derived structs: (Rust struct, [(wire name after rename / rename_all, Option + skip_serializing_if)]) in declaration order *)\nDefinition wire_fields : list (String.string * list (String.string * bool)) := [\n{}].", field_rows.join(";\n")).unwrap();
    if missing.is_empty() {
        out.ok("wire_field_names", &format!("{} structs", structs.len()));
    } else {
        out.fail("wire_field_names", &format!("structs not found: {missing:?}"));
    }
    // enum variant names
    {
        let mso = parse_file(&format!("{defs}/mso.rs"));
        let ds = parse_file(&format!("{defs}/device_signed.rs"));
        match (find_enum(&mso, "DigestAlgorithm"), find_enum(&ds, "DeviceAuth")) {
            (Some(a), Some(b)) => {
                emit_ss(&mut w, "digest_algorithm_names", "mso.rs: enum DigestAlgorithm (variant, serde name)", &enum_variant_names(a));
                emit_ss(&mut w, "device_auth_names", "device_signed.rs: enum DeviceAuth (variant, serde name)", &enum_variant_names(b));
                out.ok("wire_enum_names", "DigestAlgorithm, DeviceAuth");
            }
            _ => out.fail("wire_enum_names", "enum DigestAlgorithm / DeviceAuth not found"),
        }
        // untagged Handover: variant order
        match find_enum(&session, "Handover") {
            Some(h) if serde_attrs(&h.attrs).iter().any(|(k, _)| k == "untagged") => {
                let names: Vec<String> = h.variants.iter().map(|v| coq_str(&v.ident.to_string())).collect();
                writeln!(w, "(* session.rs: #[serde(untagged)] enum Handover, variants in declaration (= trial) order *)\nDefinition handover_variant_order : list String.string := [{}].", names.join("; ")).unwrap();
                out.ok("wire_handover_order", &format!("{} variants", names.len()));
            }
            _ => out.fail("wire_handover_order", "untagged enum Handover not found"),
        }
    }
    // ValidityInfo names (inside macro invocations: token scan)
    {
        let vi = parse_file(&format!("{defs}/validity_info.rs"));
        let mut to = vec![];
        let mut of = vec![];
        if let Some(f) = find_trait_impl_fn(&vi, "TryFrom<ValidityInfo>", "ciborium::Value", "try_from") {
            // skip the macro_rules definition: literals inside `insert_date!( .. )` invocations at statement level
            for st in &f.block.stmts {
                let ts = quote::ToTokens::to_token_stream(st);
                let s = ts.to_string();
                if s.starts_with("macro_rules") {
                    continue;
                }
                string_literals(ts, &mut to);
            }
        }
        if let Some(f) = find_trait_impl_fn(&vi, "TryFrom<ciborium::Value>", "ValidityInfo", "try_from") {
            let mut all = vec![];
            string_literals(quote::ToTokens::to_token_stream(&f.block), &mut all);
            of = all;
        }
        if to.len() == 4 && of.len() == 4 {
            let l = |v: &Vec<String>| v.iter().map(|s| coq_str(s)).collect::<Vec<_>>().join("; ");
            writeln!(w, "(* validity_info.rs: names pushed by impl TryFrom<ValidityInfo> for ciborium::Value, in order *)\nDefinition validity_info_names_to : list String.string := [{}].", l(&to)).unwrap();
            writeln!(w, "(* validity_info.rs: names looked up by impl TryFrom<ciborium::Value> for ValidityInfo, in order *)\nDefinition validity_info_names_of : list String.string := [{}].", l(&of)).unwrap();
            out.ok("wire_validity_info_names", "4 + 4 names");
        } else {
            out.fail("wire_validity_info_names", &format!("expected 4 name literals in each direction, found {to:?} / {of:?}"));
        }
        // normalisation calls present in the serialiser macro
        let src = std::fs::read_to_string(format!("{defs}/validity_info.rs")).unwrap_or_default();
        let squeezed: String = src.chars().filter(|c| !c.is_whitespace()).collect();
        if squeezed.contains("$date.replace_millisecond(0)?.checked_to_offset(UtcOffset::UTC).ok_or(Error::UtcOutOfRange)?.format(&Rfc3339)?") {
            writeln!(w, "(* validity_info.rs: insert_date! formats `$date.replace_millisecond(0)?.checked_to_offset(UtcOffset::UTC).ok_or(Error::UtcOutOfRange)?.format(&Rfc3339)?` *)\nDefinition validity_info_normalises : bool := true.").unwrap();
            out.ok("wire_validity_info_normalise", "replace_millisecond(0), checked_to_offset(UTC) or Error::UtcOutOfRange, Rfc3339");
        } else {
            out.fail("wire_validity_info_normalise", "the date formatting chain in insert_date! changed");
        }
    }
    // Every definition the Coq side refers to must exist so that the model still builds (and the
    // harness can search for a failing input) when an item above was not found in the expected
    // shape: the item is already recorded as failed; the placeholder is empty / false.
    let expected: Vec<(&str, &str, &str)> = vec![
        ("session_status_to", "list (String.string * Z)", "[]"), ("session_status_of", "list (Z * String.string)", "[]"),
        ("response_status_to", "list (String.string * Z)", "[]"), ("response_status_of", "list (Z * String.string)", "[]"),
        ("doc_error_to", "list (String.string * Z)", "[]"), ("doc_error_of", "list (Z * String.string)", "[]"),
        ("doc_error_app_specific_guard", "String.string", "\"\"%string"),
        ("ec2_curve_to", "list (String.string * Z)", "[]"), ("ec2_curve_of", "list (Z * String.string)", "[]"),
        ("okp_curve_to", "list (String.string * Z)", "[]"), ("okp_curve_of", "list (Z * String.string)", "[]"),
        ("cose_key_labels_to", "list Z", "[]"), ("cose_key_labels_of", "list Z", "[]"),
        ("ec2_jwk_to", "list (String.string * String.string)", "[]"), ("okp_jwk_to", "list (String.string * String.string)", "[]"),
        ("ec2_jwk_of", "list (String.string * String.string)", "[]"), ("okp_jwk_of", "list (String.string * String.string)", "[]"),
        ("device_engagement_labels_to", "list Z", "[]"), ("device_engagement_labels_of", "list Z", "[]"),
        ("ble_options_labels_to", "list Z", "[]"), ("ble_options_labels_of", "list Z", "[]"),
        ("wifi_options_labels_to", "list Z", "[]"), ("wifi_options_labels_of", "list Z", "[]"),
        ("nfc_options_labels_to", "list Z", "[]"), ("nfc_options_labels_of", "list Z", "[]"),
        ("transport_type_to", "list (String.string * Z)", "[]"), ("transport_type_of", "list (Z * Z * String.string)", "[]"),
        ("retrieval_method_version", "Z", "(-1)%Z"), ("engagement_version", "String.string", "\"\"%string"),
        ("nfc_command_min", "Z", "(-1)%Z"), ("nfc_command_max", "Z", "(-1)%Z"), ("nfc_response_min", "Z", "(-1)%Z"), ("nfc_response_max", "Z", "(-1)%Z"),
        ("digest_algorithm_names", "list (String.string * String.string)", "[]"), ("device_auth_names", "list (String.string * String.string)", "[]"),
        ("handover_variant_order", "list String.string", "[]"),
        ("validity_info_names_to", "list String.string", "[]"), ("validity_info_names_of", "list String.string", "[]"),
        ("validity_info_normalises", "bool", "false"),
    ];
    for (name, ty, dflt) in expected {
        if !w.contains(&format!("Definition {name} :")) {
            writeln!(w, "(* NOT FOUND in the expected shape (see gen.json) *)\nDefinition {name} : {ty} := {dflt}.").unwrap();
        }
    }
    out.files.insert("WireTables".into(), w);
}
