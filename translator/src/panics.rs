//! Panic-site inventory: every syntactic site in non-test code of /repo/src and /repo/macros that
//! can panic at run time, keyed by (file, enclosing item path, kind, ordinal within that item and
//! kind) so that unrelated edits do not renumber it.
use crate::Out;
use std::collections::BTreeMap;
use std::fmt::Write as _;
use syn::visit::Visit;

fn is_cfg_test(attrs: &[syn::Attribute]) -> bool {
    attrs.iter().any(|a| a.path().is_ident("cfg") && quote::ToTokens::to_token_stream(a).to_string().contains("test"))
}

struct V {
    path: Vec<String>,
    sites: Vec<(String, String)>, // (item path, kind)
}

impl V {
    fn push(&mut self, kind: &str) {
        self.sites.push((self.path.join("::"), kind.to_string()));
    }
}

impl<'ast> Visit<'ast> for V {
    fn visit_item_mod(&mut self, m: &'ast syn::ItemMod) {
        if is_cfg_test(&m.attrs) { return; }
        self.path.push(m.ident.to_string());
        syn::visit::visit_item_mod(self, m);
        self.path.pop();
    }
    fn visit_item_fn(&mut self, f: &'ast syn::ItemFn) {
        if is_cfg_test(&f.attrs) || f.attrs.iter().any(|a| a.path().is_ident("test")) { return; }
        self.path.push(f.sig.ident.to_string());
        syn::visit::visit_item_fn(self, f);
        self.path.pop();
    }
    fn visit_item_impl(&mut self, i: &'ast syn::ItemImpl) {
        if is_cfg_test(&i.attrs) { return; }
        let ty = quote::ToTokens::to_token_stream(&i.self_ty).to_string().replace(' ', "");
        let tr = i.trait_.as_ref().map(|(_, p, _)| quote::ToTokens::to_token_stream(p).to_string().replace(' ', "")).unwrap_or_default();
        self.path.push(if tr.is_empty() { format!("impl {ty}") } else { format!("impl {tr} for {ty}") });
        syn::visit::visit_item_impl(self, i);
        self.path.pop();
    }
    fn visit_impl_item_fn(&mut self, f: &'ast syn::ImplItemFn) {
        self.path.push(f.sig.ident.to_string());
        syn::visit::visit_impl_item_fn(self, f);
        self.path.pop();
    }
    fn visit_trait_item_fn(&mut self, f: &'ast syn::TraitItemFn) {
        self.path.push(f.sig.ident.to_string());
        syn::visit::visit_trait_item_fn(self, f);
        self.path.pop();
    }
    fn visit_item_trait(&mut self, t: &'ast syn::ItemTrait) {
        self.path.push(format!("trait {}", t.ident));
        syn::visit::visit_item_trait(self, t);
        self.path.pop();
    }
    fn visit_expr_method_call(&mut self, m: &'ast syn::ExprMethodCall) {
        match m.method.to_string().as_str() {
            "unwrap" => self.push("unwrap"),
            "expect" => self.push("expect"),
            "copy_from_slice" | "clone_from_slice" => self.push("slice_copy"),
            _ => {}
        }
        syn::visit::visit_expr_method_call(self, m);
    }
    fn visit_expr_call(&mut self, c: &'ast syn::ExprCall) {
        let f = quote::ToTokens::to_token_stream(&c.func).to_string().replace(' ', "");
        if f.ends_with("::from_slice") && f.contains("GenericArray") || f == "FieldBytes::from_slice" { self.push("from_slice"); }
        if f.ends_with("::clone_from_slice") { self.push("slice_copy"); }
        syn::visit::visit_expr_call(self, c);
    }
    fn visit_expr_index(&mut self, i: &'ast syn::ExprIndex) {
        self.push("index");
        syn::visit::visit_expr_index(self, i);
    }
    fn visit_expr_unary(&mut self, u: &'ast syn::ExprUnary) {
        if matches!(u.op, syn::UnOp::Neg(_)) && !matches!(&*u.expr, syn::Expr::Lit(_)) { self.push("neg"); }
        syn::visit::visit_expr_unary(self, u);
    }
    fn visit_expr_binary(&mut self, b: &'ast syn::ExprBinary) {
        match b.op {
            syn::BinOp::AddAssign(_) | syn::BinOp::SubAssign(_) | syn::BinOp::MulAssign(_) => self.push("arith_assign"),
            syn::BinOp::Div(_) | syn::BinOp::Rem(_) => self.push("div"),
            _ => {}
        }
        syn::visit::visit_expr_binary(self, b);
    }
    fn visit_macro(&mut self, m: &'ast syn::Macro) {
        let name = m.path.segments.last().map(|s| s.ident.to_string()).unwrap_or_default();
        match name.as_str() {
            "panic" | "unreachable" | "unimplemented" | "todo" => self.push(&name),
            "assert" | "assert_eq" | "assert_ne" => self.push("assert"),
            _ => {
                // look inside well-known expression macros for unwrap/expect tokens
                let t = m.tokens.to_string();
                for _ in 0..t.matches(". unwrap ()").count() { self.push("unwrap"); }
                for _ in 0..t.matches(". expect (").count() { self.push("expect"); }
            }
        }
        syn::visit::visit_macro(self, m);
    }
}

fn rs_files(dir: &std::path::Path, out: &mut Vec<std::path::PathBuf>) {
    if let Ok(rd) = std::fs::read_dir(dir) {
        let mut es: Vec<_> = rd.filter_map(|e| e.ok()).map(|e| e.path()).collect();
        es.sort();
        for p in es {
            if p.is_dir() { rs_files(&p, out); } else if p.extension().map(|e| e == "rs").unwrap_or(false) { out.push(p); }
        }
    }
}

pub fn panic_sites(repo: &str, out: &mut Out) {
    let mut files = vec![];
    rs_files(std::path::Path::new(&format!("{repo}/src")), &mut files);
    rs_files(std::path::Path::new(&format!("{repo}/macros/src")), &mut files);
    let mut rows: Vec<(String, String, String, usize)> = vec![];
    let mut bad = vec![];
    for f in files {
        let rel = f.strip_prefix(repo).unwrap().to_string_lossy().trim_start_matches('/').to_string();
        if rel.starts_with("src/bin/") { continue; } // the CLI is outside every claim
        let src = match std::fs::read_to_string(&f) { Ok(s) => s, Err(_) => { bad.push(rel); continue } };
        let ast = match syn::parse_file(&src) { Ok(a) => a, Err(_) => { bad.push(rel); continue } };
        let mut v = V { path: vec![], sites: vec![] };
        v.visit_file(&ast);
        let mut counts: BTreeMap<(String, String), usize> = BTreeMap::new();
        for (item, kind) in v.sites {
            let c = counts.entry((item.clone(), kind.clone())).or_insert(0);
            rows.push((rel.clone(), item, kind, *c));
            *c += 1;
        }
    }
    let mut body = String::from("(* (file, enclosing item, kind, ordinal within item and kind) *)\nDefinition gen_panic_sites : list (String.string * String.string * String.string * N) :=\n  [");
    for (i, (f, item, kind, n)) in rows.iter().enumerate() {
        if i > 0 { body.push_str(";\n   "); }
        write!(body, "(\"{f}\"%string, \"{}\"%string, \"{kind}\"%string, {n})", item.replace('"', "'")).unwrap();
    }
    body.push_str("].\n");
    out.files.insert("PanicSites".into(), body);
    if bad.is_empty() { out.ok("panic_sites", &format!("{} sites", rows.len())); } else { out.fail("panic_sites", &format!("unparsable files: {bad:?}")); }
}
