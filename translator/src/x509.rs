//! X.509 validation literals (property C12): OIDs, key-usage flag sets, the disallowed-extension
//! list, the per-role validator lists.  Emitted into coq/Gen/X509Consts.v.
//!
//! The source names most OIDs symbolically (`KeyUsage::OID`, `COUNTRY_NAME`, ...); those symbols
//! belong to the third-party crates x509-cert / const-oid.  `SYMBOL_OIDS` and `KEY_USAGE_BITS`
//! below are this translator's copy of those crates' values (RFC 5280 / RFC 4519 arcs, x509-cert
//! 0.2 `KeyUsages` discriminants).  They are cross-checked on every run by the correspondence
//! harness, whose abstraction function uses the crates' own constants.
use crate::find::*;
use crate::Out;
use std::fmt::Write as _;
use syn::visit::Visit;

const FILE: &str = "X509Consts";

const SYMBOL_OIDS: &[(&str, &str)] = &[
    ("SubjectKeyIdentifier", "2.5.29.14"),
    ("KeyUsage", "2.5.29.15"),
    ("PrivateKeyUsagePeriod", "2.5.29.16"),
    ("SubjectAltName", "2.5.29.17"),
    ("IssuerAltName", "2.5.29.18"),
    ("BasicConstraints", "2.5.29.19"),
    ("NameConstraints", "2.5.29.30"),
    ("CrlDistributionPoints", "2.5.29.31"),
    ("CertificatePolicies", "2.5.29.32"),
    ("PolicyMappings", "2.5.29.33"),
    ("AuthorityKeyIdentifier", "2.5.29.35"),
    ("PolicyConstraints", "2.5.29.36"),
    ("ExtendedKeyUsage", "2.5.29.37"),
    ("FreshestCrl", "2.5.29.46"),
    ("InhibitAnyPolicy", "2.5.29.54"),
    ("AuthorityInfoAccessSyntax", "1.3.6.1.5.5.7.1.1"),
    ("SubjectInfoAccessSyntax", "1.3.6.1.5.5.7.1.11"),
    ("COMMON_NAME", "2.5.4.3"),
    ("SERIAL_NUMBER", "2.5.4.5"),
    ("COUNTRY_NAME", "2.5.4.6"),
    ("LOCALITY_NAME", "2.5.4.7"),
    ("STATE_OR_PROVINCE_NAME", "2.5.4.8"),
    ("ORGANIZATION_NAME", "2.5.4.10"),
    ("ORGANIZATIONAL_UNIT_NAME", "2.5.4.11"),
];

const KEY_USAGE_BITS: &[(&str, u32)] = &[
    ("DigitalSignature", 1 << 0),
    ("NonRepudiation", 1 << 1),
    ("KeyEncipherment", 1 << 2),
    ("DataEncipherment", 1 << 3),
    ("KeyAgreement", 1 << 4),
    ("KeyCertSign", 1 << 5),
    ("CRLSign", 1 << 6),
    ("EncipherOnly", 1 << 7),
    ("DecipherOnly", 1 << 8),
];

fn dotted_to_coq(s: &str) -> Option<String> {
    let mut arcs = vec![];
    for a in s.split('.') {
        arcs.push(a.parse::<u64>().ok()?.to_string());
    }
    if arcs.len() < 2 {
        return None;
    }
    Some(format!("[{}]", arcs.join("; ")))
}

fn symbol_oid(sym: &str) -> Option<String> {
    SYMBOL_OIDS.iter().find(|(n, _)| *n == sym).and_then(|(_, d)| dotted_to_coq(d))
}

fn toks<T: quote::ToTokens>(t: &T) -> String {
    quote::ToTokens::to_token_stream(t).to_string().replace(' ', "")
}

/// `T::OID` -> "T"
fn oid_path_symbol(e: &syn::Expr) -> Option<String> {
    let e = strip(e);
    if let syn::Expr::Path(p) = e {
        let segs: Vec<String> = p.path.segments.iter().map(|s| s.ident.to_string()).collect();
        if segs.len() == 2 && segs[1] == "OID" {
            return Some(segs[0].clone());
        }
    }
    None
}

fn strip(e: &syn::Expr) -> &syn::Expr {
    match e {
        syn::Expr::Paren(p) => strip(&p.expr),
        syn::Expr::Group(g) => strip(&g.expr),
        syn::Expr::Reference(r) => strip(&r.expr),
        syn::Expr::Unary(u) if matches!(u.op, syn::UnOp::Deref(_)) => strip(&u.expr),
        _ => e,
    }
}

/// the value expression of a function body that consists of (comments and) one tail expression
fn tail_expr(b: &syn::Block) -> Option<&syn::Expr> {
    match b.stmts.last() {
        Some(syn::Stmt::Expr(e, None)) => Some(e),
        _ => None,
    }
}

/// `ObjectIdentifier::new_unwrap("a.b.c")`
fn new_unwrap_literal(e: &syn::Expr) -> Option<String> {
    if let syn::Expr::Call(c) = strip(e) {
        if toks(&c.func).ends_with("ObjectIdentifier::new_unwrap") && c.args.len() == 1 {
            if let syn::Expr::Lit(syn::ExprLit { lit: syn::Lit::Str(s), .. }) = &c.args[0] {
                return Some(s.value());
            }
        }
    }
    None
}

/// `KeyUsages::A | KeyUsages::B`, `KeyUsages::A.into()`
fn flag_names(e: &syn::Expr) -> Option<Vec<String>> {
    match strip(e) {
        syn::Expr::Path(p) => {
            let segs: Vec<String> = p.path.segments.iter().map(|s| s.ident.to_string()).collect();
            if segs.len() == 2 && segs[0] == "KeyUsages" {
                Some(vec![segs[1].clone()])
            } else {
                None
            }
        }
        syn::Expr::Binary(b) if matches!(b.op, syn::BinOp::BitOr(_)) => {
            let mut l = flag_names(&b.left)?;
            l.extend(flag_names(&b.right)?);
            Some(l)
        }
        syn::Expr::MethodCall(mc) if mc.method == "into" && mc.args.is_empty() => flag_names(&mc.receiver),
        _ => None,
    }
}

fn flags_value(names: &[String]) -> Option<u32> {
    let mut v = 0u32;
    for n in names {
        v |= KEY_USAGE_BITS.iter().find(|(k, _)| k == n)?.1;
    }
    Some(v)
}

/// the struct-literal field `field: <expr>` anywhere in the block (first one)
fn struct_field_expr<'a>(b: &'a syn::Block, field: &str) -> Option<&'a syn::Expr> {
    struct V<'a, 'f>(&'f str, Option<&'a syn::Expr>);
    impl<'ast, 'f> Visit<'ast> for V<'ast, 'f> {
        fn visit_expr_struct(&mut self, s: &'ast syn::ExprStruct) {
            for f in &s.fields {
                if let syn::Member::Named(id) = &f.member {
                    if id == self.0 && self.1.is_none() {
                        self.1 = Some(&f.expr);
                    }
                }
            }
            syn::visit::visit_expr_struct(self, s);
        }
    }
    let mut v = V(field, None);
    v.visit_block(b);
    v.1
}

/// arguments of the `.with(..)` calls of a builder chain, in call order
fn with_chain(b: &syn::Block) -> Vec<syn::Expr> {
    struct V(Vec<syn::Expr>);
    impl<'ast> Visit<'ast> for V {
        fn visit_expr_method_call(&mut self, mc: &'ast syn::ExprMethodCall) {
            // receiver first: the innermost call of the chain is evaluated first
            self.visit_expr(&mc.receiver);
            if mc.method == "with" && mc.args.len() == 1 {
                self.0.push(mc.args[0].clone());
            }
            for a in &mc.args {
                self.visit_expr(a);
            }
        }
    }
    let mut v = V(vec![]);
    v.visit_block(b);
    v.0
}

/// one `.with(..)` argument -> Gallina term of type gen_validator
fn classify_validator(e: &syn::Expr) -> Option<String> {
    match strip(e) {
        syn::Expr::Path(p) => match toks(p).as_str() {
            "BasicConstraintsValidator" => Some("GBc".into()),
            "CrlDistributionPointsValidator" => Some("GCrl".into()),
            "IssuerAlternativeNameValidator" => Some("GIan".into()),
            _ => None,
        },
        syn::Expr::Call(c) => {
            let f = toks(&c.func);
            if f == "SubjectKeyIdentifierValidator::from_certificate" && c.args.len() == 1 && toks(&c.args[0]) == "certificate" {
                Some("GSki".into())
            } else if let Some(role) = f.strip_prefix("KeyUsageValidator::") {
                if c.args.is_empty() && ["iaca", "document_signer", "mdoc_reader"].contains(&role) {
                    Some(format!("GKu ku_{role}"))
                } else {
                    None
                }
            } else {
                None
            }
        }
        syn::Expr::Struct(s) if toks(&s.path) == "ExtendedKeyUsageValidator" && s.fields.len() == 1 && s.rest.is_none() => {
            let f = &s.fields[0];
            if toks(&f.member) != "expected_oid" {
                return None;
            }
            if let syn::Expr::Call(c) = strip(&f.expr) {
                if !c.args.is_empty() {
                    return None;
                }
                match toks(&c.func).as_str() {
                    "document_signer_extended_key_usage_oid" => Some("GEku eku_document_signer".into()),
                    "mdoc_reader_extended_key_usage_oid" => Some("GEku eku_mdoc_reader".into()),
                    _ => None,
                }
            } else {
                None
            }
        }
        _ => None,
    }
}

/// right-hand sides `X::OID` of `<something>.extn_id == X::OID` comparisons, in source order
fn extn_id_comparisons(b: &syn::Block) -> Vec<String> {
    struct V(Vec<String>);
    impl<'ast> Visit<'ast> for V {
        fn visit_expr_binary(&mut self, e: &'ast syn::ExprBinary) {
            if matches!(e.op, syn::BinOp::Eq(_)) && toks(&e.left).ends_with(".extn_id") {
                if let Some(s) = oid_path_symbol(&e.right) {
                    self.0.push(s);
                }
            }
            syn::visit::visit_expr_binary(self, e);
        }
    }
    let mut v = V(vec![]);
    v.visit_block(b);
    v.0
}

/// calls `fname(args..)` anywhere in the block: the token text of argument `idx`
fn call_args(b: &syn::Block, fname: &str, idx: usize) -> Vec<String> {
    struct V<'f>(&'f str, usize, Vec<String>);
    impl<'ast, 'f> Visit<'ast> for V<'f> {
        fn visit_expr_call(&mut self, c: &'ast syn::ExprCall) {
            if toks(&c.func) == self.0 {
                if let Some(a) = c.args.iter().nth(self.1) {
                    self.2.push(toks(a));
                }
            }
            syn::visit::visit_expr_call(self, c);
        }
    }
    let mut v = V(fname, idx, vec![]);
    v.visit_block(b);
    v.2
}

pub fn x509_constants(repo: &str, out: &mut Out) {
    let base = format!("{repo}/src/definitions/x509/validation");
    let mut body = String::new();
    writeln!(
        body,
        "(* X.509 validation literals copied from src/definitions/x509/validation/**.  An OID is the list of its arcs. *)\n\
         Inductive gen_validator := GSki | GEku (expected : list N) | GKu (expected : N) | GBc | GCrl | GIan.\n"
    )
    .unwrap();

    // ---- extended key usage OIDs ------------------------------------------------------------
    let eku = parse_file(&format!("{base}/extensions/extended_key_usage.rs"));
    let mut eku_ok = true;
    let mut eku_detail = vec![];
    for (fname, def) in [
        ("document_signer_extended_key_usage_oid", "eku_document_signer"),
        ("mdoc_reader_extended_key_usage_oid", "eku_mdoc_reader"),
    ] {
        match find_fn(&eku, fname).and_then(|f| tail_expr(&f.block)).and_then(new_unwrap_literal) {
            Some(lit) => match dotted_to_coq(&lit) {
                Some(c) => {
                    writeln!(body, "(* extended_key_usage.rs {fname}: ObjectIdentifier::new_unwrap(\"{lit}\") *)\nDefinition {def} : list N := {c}.").unwrap();
                    eku_detail.push(lit);
                }
                None => eku_ok = false,
            },
            None => eku_ok = false,
        }
    }
    if eku_ok {
        out.ok("x509_eku_oids", &eku_detail.join(", "));
    } else {
        out.fail("x509_eku_oids", "expected fn .._extended_key_usage_oid() { ObjectIdentifier::new_unwrap(\"..\") }");
    }

    // ---- key usage flag sets --------------------------------------------------------------------
    let ku = parse_file(&format!("{base}/extensions/key_usage.rs"));
    let mut ku_ok = true;
    let mut ku_detail = vec![];
    for role in ["document_signer", "mdoc_reader", "iaca"] {
        let names = find_impl_fn(&ku, "KeyUsageValidator", role)
            .and_then(|f| struct_field_expr(&f.block, "expected_flagset"))
            .and_then(flag_names);
        match names.as_ref().and_then(|n| flags_value(n).map(|v| (n, v))) {
            Some((n, v)) => {
                writeln!(body, "(* key_usage.rs KeyUsageValidator::{role}: {} *)\nDefinition ku_{role} : N := {v}.", n.join(" | ")).unwrap();
                ku_detail.push(format!("{role}={}", n.join("|")));
            }
            None => ku_ok = false,
        }
    }
    if ku_ok {
        out.ok("x509_key_usage_flagsets", &ku_detail.join(", "));
    } else {
        out.fail("x509_key_usage_flagsets", "expected KeyUsageValidator::{document_signer,mdoc_reader,iaca} { expected_flagset: KeyUsages::A [| KeyUsages::B][.into()] }");
    }

    // ---- the OID each validator answers to ------------------------------------------------------
    let mut voids_ok = true;
    let mut voids_detail = vec![];
    for (file, ty, def) in [
        ("subject_key_identifier.rs", "SubjectKeyIdentifierValidator", "oid_validator_ski"),
        ("extended_key_usage.rs", "ExtendedKeyUsageValidator", "oid_validator_eku"),
        ("key_usage.rs", "KeyUsageValidator", "oid_validator_ku"),
        ("basic_constraints.rs", "BasicConstraintsValidator", "oid_validator_bc"),
        ("crl_distribution_points.rs", "CrlDistributionPointsValidator", "oid_validator_crl"),
        ("issuer_alternative_name.rs", "IssuerAlternativeNameValidator", "oid_validator_ian"),
    ] {
        let f = parse_file(&format!("{base}/extensions/{file}"));
        let sym = find_trait_impl_fn(&f, "ExtensionValidator", ty, "oid").and_then(|m| tail_expr(&m.block)).and_then(oid_path_symbol);
        match sym.as_ref().and_then(|s| symbol_oid(s).map(|c| (s, c))) {
            Some((s, c)) => {
                writeln!(body, "(* {file} impl ExtensionValidator for {ty}: fn oid = {s}::OID *)\nDefinition {def} : list N := {c}.").unwrap();
                voids_detail.push(format!("{ty}={s}"));
            }
            None => voids_ok = false,
        }
    }
    if voids_ok {
        out.ok("x509_validator_oids", &voids_detail.join(", "));
    } else {
        out.fail("x509_validator_oids", "expected impl ExtensionValidator for <V> { fn oid(&self) { <KnownExtension>::OID } } in every validator file");
    }

    // ---- extensions/mod.rs: disallowed list, key identifier check, per-role validator lists -----
    let ext = parse_file(&format!("{base}/extensions/mod.rs"));
    let dis = find_fn(&ext, "check_for_disallowed_x509_extensions").and_then(|f| {
        for st in &f.block.stmts {
            if let syn::Stmt::Local(l) = st {
                if let (syn::Pat::Ident(pi), Some(init)) = (&l.pat, &l.init) {
                    if pi.ident == "disallowed_extensions" {
                        if let syn::Expr::Array(a) = &*init.expr {
                            return a.elems.iter().map(oid_path_symbol).collect::<Option<Vec<String>>>();
                        }
                    }
                }
            }
        }
        None
    });
    match dis.as_ref().and_then(|syms| syms.iter().map(|s| symbol_oid(s)).collect::<Option<Vec<String>>>().map(|c| (syms, c))) {
        Some((syms, c)) => {
            writeln!(body, "(* extensions/mod.rs check_for_disallowed_x509_extensions: [{}] *)\nDefinition disallowed_extensions : list (list N) := [{}].", syms.join(", "), c.join("; ")).unwrap();
            out.ok("x509_disallowed_extensions", &syms.join(", "));
        }
        None => out.fail("x509_disallowed_extensions", "expected let disallowed_extensions = [<KnownExtension>::OID, ..] in check_for_disallowed_x509_extensions"),
    }

    let kic = find_fn(&ext, "key_identifier_check").map(|f| extn_id_comparisons(&f.block));
    match kic.as_ref().map(|v| v.iter().map(|s| symbol_oid(s)).collect::<Option<Vec<String>>>()) {
        Some(Some(c)) if c.len() == 2 => {
            let k = kic.unwrap();
            writeln!(body, "(* extensions/mod.rs key_identifier_check: issuer extensions filtered by {}::OID, subject extensions by {}::OID *)\nDefinition oid_kic_issuer_ext : list N := {}.\nDefinition oid_kic_subject_ext : list N := {}.", k[0], k[1], c[0], c[1]).unwrap();
            out.ok("x509_key_identifier_oids", &k.join(", "));
        }
        _ => out.fail("x509_key_identifier_oids", "expected exactly two `ext.extn_id == <KnownExtension>::OID` comparisons in key_identifier_check"),
    }

    let mut lists_ok = true;
    let mut lists_detail = vec![];
    for (fname, def) in [
        ("validate_iaca_extensions", "validators_iaca"),
        ("validate_document_signer_certificate_extensions", "validators_document_signer"),
        ("validate_mdoc_reader_certificate_extensions", "validators_mdoc_reader"),
    ] {
        match find_fn(&ext, fname).map(|f| with_chain(&f.block)) {
            Some(args) => match args.iter().map(classify_validator).collect::<Option<Vec<String>>>() {
                Some(terms) if eku_ok && ku_ok => {
                    writeln!(body, "(* extensions/mod.rs {fname}: the .with(..) chain, in order *)\nDefinition {def} : list gen_validator := [{}].", terms.join("; ")).unwrap();
                    lists_detail.push(format!("{def}={}", terms.len()));
                }
                _ => lists_ok = false,
            },
            None => lists_ok = false,
        }
    }
    if lists_ok {
        out.ok("x509_validator_lists", &lists_detail.join(", "));
    } else {
        out.fail("x509_validator_lists", "expected ExtensionValidators::default().with(<known validator>)... in the three validate_*_extensions functions");
    }

    // ---- names.rs / mod.rs: which attribute types are compared ----------------------------------
    let names = parse_file(&format!("{base}/names.rs"));
    let top = parse_file(&format!("{base}/mod.rs"));
    let c = find_fn(&names, "country_name_matches").map(|f| call_args(&f.block, "name_matches", 0));
    let s = find_fn(&names, "state_or_province_name_matches").map(|f| call_args(&f.block, "name_matches", 0));
    let h = find_fn(&top, "mdl_validate").map(|f| call_args(&f.block, "has_rdn", 1));
    let one = |v: &Option<Vec<String>>| -> Option<(String, String)> {
        let v = v.as_ref()?;
        if v.is_empty() || v.iter().any(|x| x != &v[0]) {
            return None;
        }
        symbol_oid(&v[0]).map(|c| (v[0].clone(), c))
    };
    match (one(&c), one(&s), one(&h)) {
        (Some((cs, cc)), Some((ss, sc)), Some((hs, hc))) => {
            writeln!(body, "(* names.rs country_name_matches: name_matches({cs}, ..) *)\nDefinition oid_country_name : list N := {cc}.").unwrap();
            writeln!(body, "(* names.rs state_or_province_name_matches: name_matches({ss}, ..) *)\nDefinition oid_state_or_province_name : list N := {sc}.").unwrap();
            writeln!(body, "(* validation/mod.rs mdl_validate: has_rdn(.., {hs}) *)\nDefinition oid_mdl_has_rdn : list N := {hc}.").unwrap();
            out.ok("x509_name_oids", &format!("{cs}, {ss}, {hs}"));
        }
        _ => out.fail("x509_name_oids", "expected name_matches(<KNOWN_ATTRIBUTE>, ..) in country_name_matches / state_or_province_name_matches and has_rdn(.., <KNOWN_ATTRIBUTE>) in mdl_validate"),
    }

    out.files.insert(FILE.to_string(), body);
}
