//! Small syntactic finders over syn trees.
use std::collections::BTreeMap;
use syn::visit::Visit;

pub fn parse_file(path: &str) -> syn::File {
    let src = std::fs::read_to_string(path).unwrap_or_else(|e| panic!("read {path}: {e}"));
    syn::parse_file(&src).unwrap_or_else(|e| panic!("parse {path}: {e}"))
}

fn is_cfg_test(attrs: &[syn::Attribute]) -> bool {
    attrs.iter().any(|a| {
        a.path().is_ident("cfg") && {
            let s = quote::ToTokens::to_token_stream(a).to_string();
            s.contains("test")
        }
    })
}

/// free function by name (top level or inside non-test modules)
pub fn find_fn<'a>(file: &'a syn::File, name: &str) -> Option<&'a syn::ItemFn> {
    fn go<'a>(items: &'a [syn::Item], name: &str) -> Option<&'a syn::ItemFn> {
        for it in items {
            match it {
                syn::Item::Fn(f) if f.sig.ident == name && !is_cfg_test(&f.attrs) => return Some(f),
                syn::Item::Mod(m) if !is_cfg_test(&m.attrs) => {
                    if let Some((_, items)) = &m.content {
                        if let Some(f) = go(items, name) {
                            return Some(f);
                        }
                    }
                }
                _ => {}
            }
        }
        None
    }
    go(&file.items, name)
}

fn type_mentions(ty: &syn::Type, name: &str) -> bool {
    quote::ToTokens::to_token_stream(ty).to_string().split(|c: char| !c.is_alphanumeric() && c != '_').any(|t| t == name)
}

/// method `fn_name` in an `impl .. for ..` / `impl T` block whose trait generic args or self type
/// mention `ty_name` (e.g. impl From<Status> for u64 -> ("Status","from"))
pub fn find_impl_fn<'a>(file: &'a syn::File, ty_name: &str, fn_name: &str) -> Option<&'a syn::ImplItemFn> {
    for it in &file.items {
        if let syn::Item::Impl(im) = it {
            let in_trait = im
                .trait_
                .as_ref()
                .map(|(_, p, _)| quote::ToTokens::to_token_stream(p).to_string().contains(&format!("< {ty_name} >")))
                .unwrap_or(false);
            let self_is = type_mentions(&im.self_ty, ty_name);
            if in_trait || (im.trait_.is_none() && self_is) {
                for ii in &im.items {
                    if let syn::ImplItem::Fn(f) = ii {
                        if f.sig.ident == fn_name {
                            return Some(f);
                        }
                    }
                }
            }
        }
    }
    None
}

/// impl <Trait><..> for <SelfTy> { fn fn_name }
pub fn find_trait_impl_fn<'a>(file: &'a syn::File, trait_contains: &str, self_ty: &str, fn_name: &str) -> Option<&'a syn::ImplItemFn> {
    for it in &file.items {
        if let syn::Item::Impl(im) = it {
            let t = im.trait_.as_ref().map(|(_, p, _)| quote::ToTokens::to_token_stream(p).to_string().replace(' ', "")).unwrap_or_default();
            let s = quote::ToTokens::to_token_stream(&im.self_ty).to_string().replace(' ', "");
            if t.contains(trait_contains) && s == self_ty {
                for ii in &im.items {
                    if let syn::ImplItem::Fn(f) = ii {
                        if f.sig.ident == fn_name {
                            return Some(f);
                        }
                    }
                }
            }
        }
    }
    None
}

pub fn int_array(e: &syn::Expr) -> Option<Vec<u8>> {
    if let syn::Expr::Array(a) = e {
        let mut v = vec![];
        for el in &a.elems {
            if let syn::Expr::Lit(syn::ExprLit { lit: syn::Lit::Int(i), .. }) = el {
                v.push(i.base10_parse::<u8>().ok()?);
            } else {
                return None;
            }
        }
        return Some(v);
    }
    None
}

struct FirstArray(Option<Vec<u8>>);
impl<'ast> Visit<'ast> for FirstArray {
    fn visit_expr(&mut self, e: &'ast syn::Expr) {
        if self.0.is_none() {
            if let Some(a) = int_array(e) {
                self.0 = Some(a);
                return;
            }
            syn::visit::visit_expr(self, e);
        }
    }
}

/// `if <cond> { ..[ints].. } else { ..[ints].. }`
pub struct IfArrays {
    pub cond: String,
    pub found: Option<(Vec<u8>, Vec<u8>)>,
}
impl<'ast> Visit<'ast> for IfArrays {
    fn visit_expr_if(&mut self, e: &'ast syn::ExprIf) {
        let c = quote::ToTokens::to_token_stream(&e.cond).to_string();
        if c == self.cond && self.found.is_none() {
            let mut a = FirstArray(None);
            a.visit_block(&e.then_branch);
            let mut b = FirstArray(None);
            if let Some((_, els)) = &e.else_branch {
                b.visit_expr(els);
            }
            if let (Some(x), Some(y)) = (a.0, b.0) {
                self.found = Some((x, y));
            }
        }
        syn::visit::visit_expr_if(self, e);
    }
}

fn lit_str(e: &syn::Expr) -> Option<String> {
    if let syn::Expr::Lit(syn::ExprLit { lit: syn::Lit::Str(s), .. }) = e {
        Some(s.value())
    } else {
        None
    }
}

/// `let name = "lit".as_bytes();` bindings in a block
pub fn let_str_bytes(b: &syn::Block) -> BTreeMap<String, String> {
    let mut m = BTreeMap::new();
    for st in &b.stmts {
        if let syn::Stmt::Local(l) = st {
            if let (syn::Pat::Ident(pi), Some(init)) = (&l.pat, &l.init) {
                if let syn::Expr::MethodCall(mc) = &*init.expr {
                    if mc.method == "as_bytes" {
                        if let Some(s) = lit_str(&mc.receiver) {
                            m.insert(pi.ident.to_string(), s);
                        }
                    }
                }
            }
        }
    }
    m
}

/// `let [mut] name = [0u8; N];`
pub fn let_array_repeat_len(b: &syn::Block, name: &str) -> Option<u64> {
    for st in &b.stmts {
        if let syn::Stmt::Local(l) = st {
            if let (syn::Pat::Ident(pi), Some(init)) = (&l.pat, &l.init) {
                if pi.ident == name {
                    if let syn::Expr::Repeat(r) = &*init.expr {
                        if let syn::Expr::Lit(syn::ExprLit { lit: syn::Lit::Int(i), .. }) = &*r.len {
                            return i.base10_parse().ok();
                        }
                    }
                }
            }
        }
    }
    None
}

/// all string literals that are receivers of `.method()` anywhere in the block
pub fn method_receiver_strs(b: &syn::Block, method: &str) -> Vec<String> {
    struct V<'a>(&'a str, Vec<String>);
    impl<'ast, 'a> Visit<'ast> for V<'a> {
        fn visit_expr_method_call(&mut self, mc: &'ast syn::ExprMethodCall) {
            if mc.method == self.0 {
                if let Some(s) = lit_str(&mc.receiver) {
                    self.1.push(s);
                }
            }
            syn::visit::visit_expr_method_call(self, mc);
        }
    }
    let mut v = V(method, vec![]);
    v.visit_block(b);
    v.1
}

/// arms `Path::Variant => <int>` of the first match in the block
pub fn match_arms_path_to_int(b: &syn::Block) -> Vec<(String, i128)> {
    struct V(Vec<(String, i128)>, bool);
    impl<'ast> Visit<'ast> for V {
        fn visit_expr_match(&mut self, m: &'ast syn::ExprMatch) {
            if self.1 {
                return;
            }
            self.1 = true;
            for arm in &m.arms {
                let pat = quote::ToTokens::to_token_stream(&arm.pat).to_string().replace(' ', "");
                let name = pat.rsplit("::").next().unwrap_or(&pat).to_string();
                if let Some(n) = int_of(&arm.body) {
                    self.0.push((name, n));
                }
            }
        }
    }
    let mut v = V(vec![], false);
    v.visit_block(b);
    v.0
}

pub fn int_of(e: &syn::Expr) -> Option<i128> {
    match e {
        syn::Expr::Lit(syn::ExprLit { lit: syn::Lit::Int(i), .. }) => i.base10_parse().ok(),
        syn::Expr::Unary(u) if matches!(u.op, syn::UnOp::Neg(_)) => int_of(&u.expr).map(|x| -x),
        syn::Expr::Paren(p) => int_of(&p.expr),
        syn::Expr::Group(g) => int_of(&g.expr),
        _ => None,
    }
}

fn serde_attrs(attrs: &[syn::Attribute]) -> String {
    let mut v = vec![];
    for a in attrs {
        if a.path().is_ident("serde") {
            v.push(quote::ToTokens::to_token_stream(&a.meta).to_string().replace(' ', ""));
        }
    }
    v.join(";")
}

/// (container serde attributes, [(field name, field serde attributes, type tokens)]) of a named-field struct
pub fn struct_fields(file: &syn::File, name: &str) -> Option<(String, Vec<(String, String, String)>)> {
    for it in &file.items {
        if let syn::Item::Struct(st) = it {
            if st.ident == name {
                if let syn::Fields::Named(n) = &st.fields {
                    let fields = n
                        .named
                        .iter()
                        .map(|f| {
                            (
                                f.ident.as_ref().unwrap().to_string(),
                                serde_attrs(&f.attrs),
                                quote::ToTokens::to_token_stream(&f.ty).to_string().replace(' ', ""),
                            )
                        })
                        .collect();
                    return Some((serde_attrs(&st.attrs), fields));
                }
            }
        }
    }
    None
}

/// (container serde attributes, [(variant name, variant serde attributes, payload shape)]) of an enum
pub fn enum_variants(file: &syn::File, name: &str) -> Option<(String, Vec<(String, String, String)>)> {
    for it in &file.items {
        if let syn::Item::Enum(en) = it {
            if en.ident == name {
                let vs = en
                    .variants
                    .iter()
                    .map(|v| {
                        let shape = match &v.fields {
                            syn::Fields::Unit => "unit".to_string(),
                            syn::Fields::Unnamed(u) => format!("tuple{}", u.unnamed.len()),
                            syn::Fields::Named(n) => format!("struct{}", n.named.len()),
                        };
                        (v.ident.to_string(), serde_attrs(&v.attrs), shape)
                    })
                    .collect();
                return Some((serde_attrs(&en.attrs), vs));
            }
        }
    }
    None
}

/// arms `Path::Variant => ciborium::Value::Integer(<int>.into())` of the first match in the block
pub fn match_arms_path_to_value_int(b: &syn::Block) -> Vec<(String, i128)> {
    struct V(Vec<(String, i128)>, bool);
    impl<'ast> Visit<'ast> for V {
        fn visit_expr_match(&mut self, m: &'ast syn::ExprMatch) {
            if self.1 {
                return;
            }
            self.1 = true;
            for arm in &m.arms {
                let pat = quote::ToTokens::to_token_stream(&arm.pat).to_string().replace(' ', "");
                let name = pat.rsplit("::").next().unwrap_or(&pat).to_string();
                if let syn::Expr::Call(c) = &*arm.body {
                    let f = quote::ToTokens::to_token_stream(&c.func).to_string().replace(' ', "");
                    if f.ends_with("Value::Integer") && c.args.len() == 1 {
                        if let syn::Expr::MethodCall(mc) = &c.args[0] {
                            if mc.method == "into" {
                                if let Some(n) = int_of(&mc.receiver) {
                                    self.0.push((name, n));
                                    continue;
                                }
                            }
                        }
                    }
                }
                // an arm of another shape: the table is not a literal table any more
                self.0.clear();
                return;
            }
        }
    }
    let mut v = V(vec![], false);
    v.visit_block(b);
    v.0
}

/// `CoseKey::signature_algorithm`: every arm is `CoseKey::<K> { crv: <C>::<X>, .. } => Some(Algorithm::<A>)`
/// except a final `_ => None`.  Returns ((K, X, A) rows, has `_ => None`).
pub fn sig_alg_arms(b: &syn::Block) -> Result<(Vec<(String, String, String)>, bool), String> {
    let m = b
        .stmts
        .iter()
        .find_map(|s| match s {
            syn::Stmt::Expr(syn::Expr::Match(m), _) => Some(m),
            _ => None,
        })
        .ok_or("signature_algorithm is not a single match expression")?;
    let scrut = quote::ToTokens::to_token_stream(&m.expr).to_string();
    if scrut != "self" {
        return Err(format!("match scrutinee is `{scrut}`, expected `self`"));
    }
    let mut rows = vec![];
    let mut default_none = false;
    for arm in &m.arms {
        if arm.guard.is_some() {
            return Err("arm with a guard".into());
        }
        let body = quote::ToTokens::to_token_stream(&arm.body).to_string().replace(' ', "");
        match &arm.pat {
            syn::Pat::Wild(_) => {
                if body != "None" {
                    return Err(format!("wildcard arm returns `{body}`, expected None"));
                }
                default_none = true;
            }
            syn::Pat::Struct(ps) => {
                let path: Vec<String> = ps.path.segments.iter().map(|s| s.ident.to_string()).collect();
                if path.len() != 2 || path[0] != "CoseKey" || ps.fields.len() != 1 || ps.rest.is_none() {
                    return Err(format!("arm pattern `{}` is not CoseKey::K {{ crv: C::X, .. }}", quote::ToTokens::to_token_stream(&arm.pat)));
                }
                let fp = &ps.fields[0];
                let fname = quote::ToTokens::to_token_stream(&fp.member).to_string();
                let crv = match &*fp.pat {
                    syn::Pat::Path(pp) => pp.path.segments.last().map(|s| s.ident.to_string()),
                    _ => None,
                };
                let crv = match (fname.as_str(), crv) {
                    ("crv", Some(c)) => c,
                    _ => return Err("arm pattern field is not `crv: C::X`".into()),
                };
                let alg = body.strip_prefix("Some(Algorithm::").and_then(|r| r.strip_suffix(')'));
                match alg {
                    Some(a) if a.chars().all(|c| c.is_alphanumeric() || c == '_') => rows.push((path[1].clone(), crv, a.to_string())),
                    _ => return Err(format!("arm body `{body}` is not Some(Algorithm::A)")),
                }
            }
            other => return Err(format!("arm pattern `{}` has an unexpected shape", quote::ToTokens::to_token_stream(other))),
        }
    }
    Ok((rows, default_none))
}

/// `impl Ty { const NAME: &str = "lit"; }`
pub fn impl_const_str(file: &syn::File, ty: &str, name: &str) -> Option<String> {
    for it in &file.items {
        if let syn::Item::Impl(im) = it {
            if im.trait_.is_none() && type_mentions(&im.self_ty, ty) {
                for ii in &im.items {
                    if let syn::ImplItem::Const(c) = ii {
                        if c.ident == name {
                            return lit_str(&c.expr);
                        }
                    }
                }
            }
        }
    }
    None
}

/// in a block: `Security(<int>, ..)` and `DeviceEngagement { version: "lit".to_string(), .. }`
pub fn engagement_literals(b: &syn::Block) -> (Option<u64>, Option<String>) {
    struct V(Option<u64>, Option<String>);
    impl<'ast> Visit<'ast> for V {
        fn visit_expr_call(&mut self, c: &'ast syn::ExprCall) {
            let f = quote::ToTokens::to_token_stream(&c.func).to_string().replace(' ', "");
            if f == "Security" && c.args.len() == 2 {
                if let Some(n) = int_of(&c.args[0]) {
                    self.0 = u64::try_from(n).ok();
                }
            }
            syn::visit::visit_expr_call(self, c);
        }
        fn visit_expr_struct(&mut self, s: &'ast syn::ExprStruct) {
            if s.path.segments.last().map(|x| x.ident == "DeviceEngagement").unwrap_or(false) {
                for f in &s.fields {
                    if quote::ToTokens::to_token_stream(&f.member).to_string() == "version" {
                        if let syn::Expr::MethodCall(mc) = &f.expr {
                            if mc.method == "to_string" || mc.method == "into" {
                                self.1 = lit_str(&mc.receiver);
                            }
                        }
                    }
                }
            }
            syn::visit::visit_expr_struct(self, s);
        }
    }
    let mut v = V(None, None);
    v.visit_block(b);
    (v.0, v.1)
}

/// in a block: `Struct { field: "lit".into() | "lit".to_string(), .. }`
pub fn struct_field_str(b: &syn::Block, struct_name: &str, field: &str) -> Option<String> {
    struct V<'a>(&'a str, &'a str, Option<String>);
    impl<'ast, 'a> Visit<'ast> for V<'a> {
        fn visit_expr_struct(&mut self, s: &'ast syn::ExprStruct) {
            if s.path.segments.last().map(|x| x.ident == self.0).unwrap_or(false) {
                for f in &s.fields {
                    if quote::ToTokens::to_token_stream(&f.member).to_string() == self.1 {
                        if let syn::Expr::MethodCall(mc) = &f.expr {
                            if mc.method == "to_string" || mc.method == "into" {
                                self.2 = lit_str(&mc.receiver);
                            }
                        }
                    }
                }
            }
            syn::visit::visit_expr_struct(self, s);
        }
    }
    let mut v = V(struct_name, field, None);
    v.visit_block(b);
    v.2
}
