//! Translator: /repo source -> coq/Gen/*.v.  Copies literals, tables and field lists out of the
//! current source, without interpreting control flow.  Every item it is asked for must be found
//! in the expected shape; otherwise the run fails with `translator:<item>` (a broken obligation).
use std::collections::BTreeMap;
use std::fmt::Write as _;
use syn::visit::Visit;

mod find;
mod panics;
mod wire;
mod issuance;
mod namespaces;
mod x509;
use find::*;

pub struct Out {
    /// Gen/Constants.v body
    pub constants: String,
    /// further generated files: name (without .v) -> body (each gets the standard header)
    pub files: BTreeMap<String, String>,
    pub obligations: Vec<(String, bool, String)>,
    pub meta: BTreeMap<String, serde_json::Value>,
}

impl Out {
    pub fn ok(&mut self, item: &str, detail: &str) {
        self.obligations.push((item.to_string(), true, detail.to_string()));
    }
    pub fn fail(&mut self, item: &str, detail: &str) {
        self.obligations.push((item.to_string(), false, detail.to_string()));
    }
    pub fn def_bytes(&mut self, name: &str, b: &[u8], src: &str) {
        let l: Vec<String> = b.iter().map(|x| x.to_string()).collect();
        writeln!(self.constants, "(* {src} *)\nDefinition {name} : bytes := [{}].", l.join("; ")).unwrap();
    }
    pub fn def_n(&mut self, name: &str, n: u128, src: &str) {
        writeln!(self.constants, "(* {src} *)\nDefinition {name} : N := {n}.").unwrap();
    }
    pub fn def_z(&mut self, name: &str, n: i128, src: &str) {
        let s = if n < 0 { format!("({n})") } else { n.to_string() };
        writeln!(self.constants, "(* {src} *)\nDefinition {name} : Z := {s}%Z.").unwrap();
    }
}

fn session_constants(repo: &str, out: &mut Out) {
    let file = parse_file(&format!("{repo}/src/definitions/session.rs"));
    // get_initialization_vector: if reader { [..8 ints..] } else { [..8 ints..] }
    match find_fn(&file, "get_initialization_vector") {
        Some(f) => {
            let mut v = IfArrays { cond: "reader".into(), found: None };
            v.visit_block(&f.block);
            match v.found {
                Some((a, b)) if a.len() == 8 && b.len() == 8 => {
                    out.def_bytes("iv_identifier_reader", &a, "session.rs get_initialization_vector, reader branch");
                    out.def_bytes("iv_identifier_device", &b, "session.rs get_initialization_vector, device branch");
                    out.ok("iv_identifiers", "two 8-byte literals");
                }
                _ => out.fail("iv_identifiers", "expected `if reader { [u8;8] } else { [u8;8] }` in get_initialization_vector"),
            }
        }
        None => out.fail("iv_identifiers", "fn get_initialization_vector not found"),
    }
    // derive_session_key: the two info labels and the okm length
    match find_fn(&file, "derive_session_key") {
        Some(f) => {
            let lets = let_str_bytes(&f.block);
            let okm = let_array_repeat_len(&f.block, "okm");
            match (lets.get("sk_device"), lets.get("sk_reader"), okm) {
                (Some(d), Some(r), Some(n)) => {
                    out.def_bytes("hkdf_info_sk_device", d.as_bytes(), "session.rs derive_session_key: let sk_device = \"..\".as_bytes()");
                    out.def_bytes("hkdf_info_sk_reader", r.as_bytes(), "session.rs derive_session_key: let sk_reader = \"..\".as_bytes()");
                    out.def_n("session_key_len", n as u128, "session.rs derive_session_key: let mut okm = [0u8; N]");
                    out.ok("session_key_labels", "two labels and okm length");
                }
                _ => out.fail("session_key_labels", "expected let sk_device/sk_reader = \"..\".as_bytes() and let mut okm = [0u8; N]"),
            }
        }
        None => out.fail("session_key_labels", "fn derive_session_key not found"),
    }
    // session status table: From<Status> for u64
    match find_impl_fn(&file, "Status", "from") {
        Some(f) => {
            let arms = match_arms_path_to_int(&f.block);
            if arms.is_empty() {
                out.fail("session_status_table", "no `Status::X => n` arms");
            } else {
                let rows: Vec<String> = arms.iter().map(|(k, v)| format!("(\"{k}\"%string, {v})")).collect();
                writeln!(out.constants, "(* session.rs impl From<Status> for u64 *)\nDefinition session_status_to_code : list (String.string * N) := [{}].", rows.join("; ")).unwrap();
                out.ok("session_status_table", &format!("{} rows", arms.len()));
            }
        }
        None => out.fail("session_status_table", "impl From<Status> for u64 not found"),
    }
}

fn presentation_constants(repo: &str, out: &mut Out) {
    let file = parse_file(&format!("{repo}/src/presentation/mod.rs"));
    match find_fn(&file, "calculate_ble_ident") {
        Some(f) => {
            let strs = method_receiver_strs(&f.block, "as_bytes");
            let n = let_array_repeat_len(&f.block, "ble_ident");
            match (strs.first(), n) {
                (Some(s), Some(n)) if strs.len() == 1 => {
                    out.def_bytes("hkdf_info_ble_ident", s.as_bytes(), "presentation/mod.rs calculate_ble_ident: \"..\".as_bytes()");
                    out.def_n("ble_ident_len", n as u128, "presentation/mod.rs calculate_ble_ident: let mut ble_ident = [0u8; N]");
                    out.ok("ble_ident_label", "label and length");
                }
                _ => out.fail("ble_ident_label", "expected one \"..\".as_bytes() and let mut ble_ident = [0u8; N]"),
            }
        }
        None => out.fail("ble_ident_label", "fn calculate_ble_ident not found"),
    }
}

fn coq_str_list3(rows: &[(String, String, String)]) -> String {
    let r: Vec<String> = rows.iter().map(|(a, b, c)| format!("(\"{a}\"%string, \"{}\"%string, \"{}\"%string)", b.replace('"', "'"), c.replace('"', "'"))).collect();
    format!("[{}]", r.join(";\n   "))
}

/// serialised session state: field lists and serde attributes of the state structs
fn state_fields(repo: &str, out: &mut Out) {
    let dev = parse_file(&format!("{repo}/src/presentation/device.rs"));
    let rdr = parse_file(&format!("{repo}/src/presentation/reader.rs"));
    let mut body = String::new();
    let mut emit_struct = |out: &mut Out, file: &syn::File, name: &str, def: &str, item: &str| match struct_fields(file, name) {
        Some((c, f)) => {
            writeln!(body, "Definition {def}_container_attrs : String.string := \"{}\"%string.\nDefinition {def} : list (String.string * String.string * String.string) :=\n  {}.\n", c.replace('"', "'"), coq_str_list3(&f)).unwrap();
            out.ok(item, &format!("{} fields", f.len()));
        }
        None => out.fail(item, &format!("struct {name} with named fields not found")),
    };
    emit_struct(out, &dev, "SessionManagerInit", "gen_init_fields", "state_fields_init");
    emit_struct(out, &dev, "SessionManagerEngaged", "gen_engaged_fields", "state_fields_engaged");
    emit_struct(out, &dev, "SessionManager", "gen_device_sm_fields", "state_fields_device");
    emit_struct(out, &dev, "PreparedDeviceResponse", "gen_prepared_fields", "state_fields_prepared");
    emit_struct(out, &rdr, "SessionManager", "gen_reader_sm_fields", "state_fields_reader");
    match enum_variants(&dev, "State") {
        Some((c, v)) => {
            writeln!(body, "Definition gen_state_container_attrs : String.string := \"{}\"%string.\nDefinition gen_state_variants : list (String.string * String.string * String.string) :=\n  {}.\n", c.replace('"', "'"), coq_str_list3(&v)).unwrap();
            out.ok("state_variants", &format!("{} variants", v.len()));
        }
        None => out.fail("state_variants", "enum State not found in device.rs"),
    }
    out.files.insert("StateFields".into(), body);
}

/// C04 / C01: the reader selects the document it AUTHENTICATES (`get_document`) and the document whose elements it
/// REPORTS (`parse_namespaces`) by two separate look-ups over `documents`.  Both must be the same first-match look-up
/// by the mDL docType; the model has one look-up (`select_document`).
fn reader_document_lookup(repo: &str, out: &mut Out) {
    use quote::ToTokens;
    let rdr = parse_file(&format!("{repo}/src/presentation/reader.rs"));
    let want = ".iter().find(|doc|doc.doc_type==\"org.iso.18013.5.1.mDL\")";
    let mut ok = true;
    let mut detail = vec![];
    for name in ["get_document", "parse_namespaces"] {
        match find_fn(&rdr, name) {
            None => { ok = false; detail.push(format!("fn {name} not found in reader.rs")); }
            Some(f) => {
                let body: String = f.block.to_token_stream().to_string().chars().filter(|c| !c.is_whitespace()).collect();
                let n = body.matches(want).count();
                let other_finds = body.matches(".find(").count() + body.matches(".find_map(").count() + body.matches(".rfind(").count() + body.matches(".position(").count();
                let suspicious = ["BTreeMap<&", "HashMap<", ".last()", ".rev()", ".filter(|doc", ".nth(", ".skip("].iter().filter(|p| body.contains(**p)).count();
                if n != 1 || other_finds != 1 || suspicious != 0 {
                    ok = false;
                    detail.push(format!("{name}: expected exactly one `documents.iter().find(|doc| doc.doc_type == \"org.iso.18013.5.1.mDL\")` and no other selection of a document (found {n} / {other_finds} look-ups, {suspicious} other selectors)"));
                }
            }
        }
    }
    if ok {
        out.def_bytes("reader_document_doc_type", b"org.iso.18013.5.1.mDL", "reader.rs get_document / parse_namespaces: first document with this docType");
        out.ok("reader_document_lookup", "get_document and parse_namespaces: the same first-match look-up by docType");
    } else {
        out.def_bytes("reader_document_doc_type", b"", "reader.rs: document look-ups not in the expected shape");
        out.fail("reader_document_lookup", &detail.join("; "));
    }
}

/// C18: the literals the emitted messages carry (versions, status tables, cipher suite) and the
/// table `CoseKey::signature_algorithm` (curve -> COSE algorithm) with the curve identifiers
fn emitted_literals(repo: &str, out: &mut Out) {
    let mut body = String::from("From Coq Require Import ZArith.\n\n");
    // ---- CoseKey::signature_algorithm: arms `CoseKey::K { crv: C::X, .. } => Some(Algorithm::A)`, `_ => None`
    let ck = parse_file(&format!("{repo}/src/definitions/device_key/cose_key.rs"));
    match find_impl_fn(&ck, "CoseKey", "signature_algorithm") {
        Some(f) => match sig_alg_arms(&f.block) {
            Ok((arms, default_none)) => {
                let rows: Vec<String> = arms.iter().map(|(k, c, a)| format!("(\"{k}\"%string, \"{c}\"%string, \"{a}\"%string)")).collect();
                writeln!(body, "(* cose_key.rs CoseKey::signature_algorithm: (key type, curve, algorithm) per arm, in source order *)\nDefinition gen_sig_alg_arms : list (String.string * String.string * String.string) :=\n  [{}].\n(* the match ends in `_ => None` *)\nDefinition gen_sig_alg_default_none : bool := {}.\n", rows.join(";\n   "), default_none).unwrap();
                out.ok("sig_alg_table", &format!("{} arms", arms.len()));
            }
            Err(e) => out.fail("sig_alg_table", &e),
        },
        None => out.fail("sig_alg_table", "fn CoseKey::signature_algorithm not found"),
    }
    for (ty, def, item) in [("EC2Curve", "gen_ec2_curve_ids", "ec2_curve_ids"), ("OKPCurve", "gen_okp_curve_ids", "okp_curve_ids")] {
        match find_trait_impl_fn(&ck, &format!("From<{ty}>"), "ciborium::Value", "from") {
            Some(f) => {
                let arms = match_arms_path_to_value_int(&f.block);
                if arms.is_empty() {
                    out.fail(item, "no `Curve::X => ciborium::Value::Integer(n.into())` arms");
                } else {
                    let rows: Vec<String> = arms.iter().map(|(k, v)| format!("(\"{k}\"%string, ({v})%Z)")).collect();
                    writeln!(body, "(* cose_key.rs impl From<{ty}> for ciborium::Value *)\nDefinition {def} : list (String.string * Z) := [{}].\n", rows.join("; ")).unwrap();
                    out.ok(item, &format!("{} rows", arms.len()));
                }
            }
            None => out.fail(item, &format!("impl From<{ty}> for ciborium::Value not found")),
        }
    }
    out.files.insert("SigAlgTable".into(), body);

    // ---- versions and status tables
    let mut body = String::new();
    for (file, ty, def, item) in [
        ("src/definitions/device_response.rs", "DeviceResponse", "gen_device_response_version", "device_response_version"),
        ("src/definitions/device_request.rs", "DeviceRequest", "gen_device_request_version", "device_request_version"),
    ] {
        let f = parse_file(&format!("{repo}/{file}"));
        match impl_const_str(&f, ty, "VERSION") {
            Some(s) => {
                let l: Vec<String> = s.as_bytes().iter().map(|x| x.to_string()).collect();
                writeln!(body, "(* {file}: impl {ty} {{ const VERSION = {s:?} }} *)\nDefinition {def} : bytes := [{}].\n", l.join("; ")).unwrap();
                out.ok(item, &s);
            }
            None => out.fail(item, &format!("impl {ty} {{ const VERSION: &str = \"..\" }} not found")),
        }
    }
    let dr = parse_file(&format!("{repo}/src/definitions/device_response.rs"));
    match find_impl_fn(&dr, "Status", "from") {
        Some(f) => {
            let arms = match_arms_path_to_int(&f.block);
            if arms.is_empty() {
                out.fail("device_response_status_table", "no `Status::X => n` arms");
            } else {
                let rows: Vec<String> = arms.iter().map(|(k, v)| format!("(\"{k}\"%string, {v})")).collect();
                writeln!(body, "(* device_response.rs impl From<Status> for u64 *)\nDefinition gen_device_response_status : list (String.string * N) := [{}].\n", rows.join("; ")).unwrap();
                out.ok("device_response_status_table", &format!("{} rows", arms.len()));
            }
        }
        None => out.fail("device_response_status_table", "impl From<Status> for u64 not found in device_response.rs"),
    }
    let ss = parse_file(&format!("{repo}/src/definitions/session.rs"));
    match find_impl_fn(&ss, "Status", "from") {
        Some(f) => {
            let arms = match_arms_path_to_int(&f.block);
            if arms.is_empty() {
                out.fail("session_data_status_table", "no `Status::X => n` arms");
            } else {
                let rows: Vec<String> = arms.iter().map(|(k, v)| format!("(\"{k}\"%string, {v})")).collect();
                writeln!(body, "(* session.rs impl From<Status> for u64 *)\nDefinition gen_session_data_status : list (String.string * N) := [{}].\n", rows.join("; ")).unwrap();
                out.ok("session_data_status_table", &format!("{} rows", arms.len()));
            }
        }
        None => out.fail("session_data_status_table", "impl From<Status> for u64 not found in session.rs"),
    }
    // ---- SessionManagerInit::initialise: Security(<suite>, ..) and DeviceEngagement { version: "..".to_string(), .. }
    let dev = parse_file(&format!("{repo}/src/presentation/device.rs"));
    match find_impl_fn(&dev, "SessionManagerInit", "initialise") {
        Some(f) => {
            let (suite, version) = engagement_literals(&f.block);
            match (suite, version) {
                (Some(n), Some(v)) => {
                    let l: Vec<String> = v.as_bytes().iter().map(|x| x.to_string()).collect();
                    writeln!(body, "(* device.rs SessionManagerInit::initialise: Security(n, ..) and DeviceEngagement {{ version: \"..\".to_string(), .. }} *)\nDefinition gen_engagement_cipher_suite : N := {n}.\nDefinition gen_engagement_version : bytes := [{}].\n", l.join("; ")).unwrap();
                    out.ok("engagement_literals", &format!("suite {n}, version {v}"));
                }
                _ => out.fail("engagement_literals", "expected Security(<int>, ..) and DeviceEngagement { version: \"..\".to_string(), .. } in initialise"),
            }
        }
        None => out.fail("engagement_literals", "fn SessionManagerInit::initialise not found"),
    }
    // ---- reader.rs build_request: ItemsRequest { doc_type: "..".into(), .. }
    let rdr = parse_file(&format!("{repo}/src/presentation/reader.rs"));
    match find_impl_fn(&rdr, "SessionManager", "build_request") {
        Some(f) => match struct_field_str(&f.block, "ItemsRequest", "doc_type") {
            Some(s) => {
                let l: Vec<String> = s.as_bytes().iter().map(|x| x.to_string()).collect();
                writeln!(body, "(* reader.rs build_request: ItemsRequest {{ doc_type: {s:?}.into(), .. }} *)\nDefinition gen_request_doc_type : bytes := [{}].\n", l.join("; ")).unwrap();
                out.ok("request_doc_type", &s);
            }
            None => out.fail("request_doc_type", "expected ItemsRequest { doc_type: \"..\".into(), .. } in build_request"),
        },
        None => out.fail("request_doc_type", "fn build_request not found in reader.rs"),
    }
    // ---- DeviceRetrievalMethod::transport_type
    let de = parse_file(&format!("{repo}/src/definitions/device_engagement.rs"));
    match find_impl_fn(&de, "DeviceRetrievalMethod", "transport_type") {
        Some(f) => {
            let arms = match_arms_path_to_int(&f.block);
            if arms.is_empty() {
                out.fail("transport_type_table", "no `Self::X(_) => n` arms");
            } else {
                let rows: Vec<String> = arms.iter().map(|(k, v)| format!("(\"{}\"%string, {v})", k.split('(').next().unwrap())).collect();
                writeln!(body, "(* device_engagement.rs DeviceRetrievalMethod::transport_type *)\nDefinition gen_transport_type : list (String.string * N) := [{}].\n", rows.join("; ")).unwrap();
                out.ok("transport_type_table", &format!("{} rows", arms.len()));
            }
        }
        None => out.fail("transport_type_table", "fn DeviceRetrievalMethod::transport_type not found"),
    }
    out.files.insert("EmitLiterals".into(), body);
}

fn main() {
    let args: Vec<String> = std::env::args().collect();
    let repo = args.get(1).cloned().unwrap_or_else(|| "/repo".into());
    let outdir = args.get(2).cloned().unwrap_or_else(|| "/verif/coq/Gen".into());
    let mut out = Out { constants: String::new(), files: BTreeMap::new(), obligations: vec![], meta: BTreeMap::new() };
    session_constants(&repo, &mut out);
    presentation_constants(&repo, &mut out);
    state_fields(&repo, &mut out);
    reader_document_lookup(&repo, &mut out);
    x509::x509_constants(&repo, &mut out);
    emitted_literals(&repo, &mut out);
    panics::panic_sites(&repo, &mut out);
    wire::wire_tables(&repo, &mut out);
    issuance::issuance_items(&repo, &mut out);
    namespaces::leaf_constants(&repo, &mut out);
    namespaces::namespaces(&repo, &mut out);

    let header = "(* GENERATED by /verif/translator from /repo's current source on every run. Do not edit. *)\nFrom Isomdl Require Import Lib.Bytes.\nOpen Scope N_scope.\n\n";
    write_if_changed(&format!("{outdir}/Constants.v"), &format!("{header}{}", out.constants));
    for (name, body) in &out.files {
        write_if_changed(&format!("{outdir}/{name}.v"), &format!("{header}{body}"));
    }
    let obl: Vec<serde_json::Value> = out
        .obligations
        .iter()
        .map(|(i, ok, d)| serde_json::json!({"item": i, "ok": ok, "detail": d}))
        .collect();
    let j = serde_json::json!({"obligations": obl, "meta": out.meta});
    std::fs::write(format!("{outdir}/gen.json"), serde_json::to_string_pretty(&j).unwrap()).unwrap();
    let failed: Vec<&(String, bool, String)> = out.obligations.iter().filter(|o| !o.1).collect();
    for f in &failed {
        println!("translator:{} FAILED: {}", f.0, f.2);
    }
    if !failed.is_empty() {
        std::process::exit(3);
    }
}

fn write_if_changed(path: &str, content: &str) {
    if let Ok(old) = std::fs::read_to_string(path) {
        if old == content {
            return;
        }
    }
    std::fs::write(path, content).unwrap_or_else(|e| panic!("write {path}: {e}"));
}
