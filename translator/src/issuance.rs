//! C09: literals and shapes of issuance/mdoc.rs, definitions/mso.rs, definitions/issuer_signed.rs and
//! definitions/x509/x5chain.rs -> coq/Gen/Issuance.v.  Copies tokens only; the Coq side pins what
//! it expects (Props/C09.v), so a source edit shows up as a failed build of the pinned statements.
use crate::find::*;
use crate::Out;
use std::fmt::Write as _;
use syn::visit::Visit;

fn toks<T: quote::ToTokens>(t: &T) -> String {
    quote::ToTokens::to_token_stream(t).to_string().replace('"', "'")
}

fn coq_pairs(rows: &[(String, String)]) -> String {
    let r: Vec<String> = rows.iter().map(|(a, b)| format!("(\"{a}\"%string, \"{b}\"%string)")).collect();
    format!("[{}]", r.join(";\n   "))
}

fn coq_triples(rows: &[(String, String, String)]) -> String {
    let r: Vec<String> = rows.iter().map(|(a, b, c)| format!("(\"{a}\"%string, \"{}\"%string, \"{}\"%string)", b.replace('"', "'"), c.replace('"', "'"))).collect();
    format!("[{}]", r.join(";\n   "))
}

/// every free function of the file (non-test), by name
fn all_fns(file: &syn::File) -> Vec<&syn::ItemFn> {
    file.items.iter().filter_map(|it| if let syn::Item::Fn(f) = it { Some(f) } else { None }).collect()
}

/// `x.gen::<[u8; N]>()` -> N ; `x.gen::<T>()` for a path type -> its tokens
struct GenCalls {
    array_lens: Vec<u64>,
    scalar_types: Vec<String>,
}
impl<'ast> Visit<'ast> for GenCalls {
    fn visit_expr_method_call(&mut self, mc: &'ast syn::ExprMethodCall) {
        if mc.method == "gen" {
            if let Some(tf) = &mc.turbofish {
                for a in &tf.args {
                    if let syn::GenericArgument::Type(ty) = a {
                        match ty {
                            syn::Type::Array(arr) => {
                                if let Some(n) = int_of(&arr.len) {
                                    self.array_lens.push(n as u64);
                                }
                            }
                            other => self.scalar_types.push(toks(other)),
                        }
                    }
                }
            }
        }
        syn::visit::visit_expr_method_call(self, mc);
    }
}

/// `.take(<int literal>)` arguments and `.gen_range(a..b)` bounds
struct TakeAndRange {
    takes: Vec<u64>,
    ranges: Vec<(i128, i128, bool)>,
}
impl<'ast> Visit<'ast> for TakeAndRange {
    fn visit_expr_method_call(&mut self, mc: &'ast syn::ExprMethodCall) {
        if mc.method == "take" && mc.args.len() == 1 {
            if let Some(n) = int_of(&mc.args[0]) {
                self.takes.push(n as u64);
            }
        }
        if mc.method == "gen_range" && mc.args.len() == 1 {
            if let syn::Expr::Range(r) = &mc.args[0] {
                if let (Some(a), Some(b)) = (r.start.as_ref().and_then(|e| int_of(e)), r.end.as_ref().and_then(|e| int_of(e))) {
                    self.ranges.push((a, b, matches!(r.limits, syn::RangeLimits::Closed(_))));
                }
            }
        }
        syn::visit::visit_expr_method_call(self, mc);
    }
}

/// calls `name(args)` -> argument tokens ; `let [mut] var = init` -> init tokens
struct CallsAndLets<'a> {
    callee: &'a str,
    var: &'a str,
    calls: Vec<String>,
    lets: Vec<String>,
}
impl<'ast, 'a> Visit<'ast> for CallsAndLets<'a> {
    fn visit_expr_call(&mut self, c: &'ast syn::ExprCall) {
        if let syn::Expr::Path(p) = &*c.func {
            if p.path.is_ident(self.callee) {
                self.calls.push(c.args.iter().map(toks).collect::<Vec<_>>().join(" , "));
            }
        }
        syn::visit::visit_expr_call(self, c);
    }
    fn visit_local(&mut self, l: &'ast syn::Local) {
        if let (syn::Pat::Ident(pi), Some(init)) = (&l.pat, &l.init) {
            if pi.ident == self.var {
                self.lets.push(toks(&*init.expr));
            }
        }
        syn::visit::visit_local(self, l);
    }
}

/// arms of the first `match <scrutinee>` whose scrutinee tokens equal `on`
struct MatchArms<'a> {
    on: &'a str,
    arms: Option<Vec<(String, String)>>,
}
impl<'ast, 'a> Visit<'ast> for MatchArms<'a> {
    fn visit_expr_match(&mut self, m: &'ast syn::ExprMatch) {
        if self.arms.is_none() && toks(&*m.expr) == self.on {
            self.arms = Some(m.arms.iter().map(|a| (toks(&a.pat), toks(&*a.body))).collect());
        }
        syn::visit::visit_expr_match(self, m);
    }
}

/// closures `|item| body` given to `.map(..)`: body tokens
struct MapClosures {
    param: String,
    bodies: Vec<String>,
}
impl<'ast> Visit<'ast> for MapClosures {
    fn visit_expr_method_call(&mut self, mc: &'ast syn::ExprMethodCall) {
        if mc.method == "map" && mc.args.len() == 1 {
            if let syn::Expr::Closure(c) = &mc.args[0] {
                if c.inputs.len() == 1 && toks(&c.inputs[0]) == self.param {
                    self.bodies.push(toks(&*c.body));
                }
            }
        }
        syn::visit::visit_expr_method_call(self, mc);
    }
}

/// `label . push ((Label :: Int (X) , ..))` style: receivers of `.push(..)` as token strings
struct PushReceivers(Vec<(String, String)>);
impl<'ast> Visit<'ast> for PushReceivers {
    fn visit_expr_method_call(&mut self, mc: &'ast syn::ExprMethodCall) {
        if mc.method == "push" && mc.args.len() == 1 {
            self.0.push((toks(&*mc.receiver), toks(&mc.args[0])));
        }
        syn::visit::visit_expr_method_call(self, mc);
    }
}

pub fn issuance_items(repo: &str, out: &mut Out) {
    let mut body = String::new();
    // ---- x5chain label ----
    let x5 = parse_file(&format!("{repo}/src/definitions/x509/x5chain.rs"));
    let mut label = None;
    for it in &x5.items {
        if let syn::Item::Const(c) = it {
            if c.ident == "X5CHAIN_COSE_HEADER_LABEL" {
                label = int_of(&c.expr);
            }
        }
    }
    match label {
        Some(n) => {
            writeln!(body, "(* x509/x5chain.rs: pub const X5CHAIN_COSE_HEADER_LABEL *)\nDefinition gen_x5chain_label : Z := ({n})%Z.\n").unwrap();
            out.ok("issuance_x5chain_label", &format!("{n}"));
        }
        None => out.fail("issuance_x5chain_label", "const X5CHAIN_COSE_HEADER_LABEL with an integer literal not found"),
    }

    let mdoc = parse_file(&format!("{repo}/src/issuance/mdoc.rs"));
    // ---- random draws ----
    let salt = find_fn(&mdoc, "to_issuer_signed_items").map(|f| {
        let mut v = GenCalls { array_lens: vec![], scalar_types: vec![] };
        v.visit_block(&f.block);
        v
    });
    let dn = find_fn(&mdoc, "digest_namespace");
    let decoy = dn.map(|f| {
        let mut g = GenCalls { array_lens: vec![], scalar_types: vec![] };
        g.visit_block(&f.block);
        let mut t = TakeAndRange { takes: vec![], ranges: vec![] };
        t.visit_block(&f.block);
        (g, t)
    });
    match (&salt, &decoy) {
        (Some(s), Some((g, t)))
            if s.array_lens.len() == 1 && s.scalar_types.is_empty() && g.array_lens.is_empty() && g.scalar_types == vec!["u8".to_string()]
                && t.takes.len() == 1 && t.ranges.len() == 1 && !t.ranges[0].2 =>
        {
            writeln!(body, "(* issuance/mdoc.rs to_issuer_signed_items: rng.gen::<[u8; N]>() *)\nDefinition gen_salt_len : N := {}.", s.array_lens[0]).unwrap();
            writeln!(body, "(* issuance/mdoc.rs digest_namespace: repeat_with(|| rng.gen::<u8>()).take(N) *)\nDefinition gen_decoy_len : N := {}.", t.takes[0]).unwrap();
            writeln!(body, "(* issuance/mdoc.rs digest_namespace: rng.gen_range(a..b), half-open *)\nDefinition gen_decoy_range : N * N := ({}, {}).\n", t.ranges[0].0, t.ranges[0].1).unwrap();
            out.ok("issuance_draws", "salt length, decoy length, decoy count range");
        }
        _ => out.fail("issuance_draws", "expected one gen::<[u8; N]>() in to_issuer_signed_items and gen::<u8>() / take(N) / gen_range(a..b) in digest_namespace"),
    }
    // ---- which set the digest-id generator is given, per caller ----
    let mut calls: Vec<(String, String)> = vec![];
    let mut lets: Vec<(String, String)> = vec![];
    for f in all_fns(&mdoc) {
        let mut v = CallsAndLets { callee: "generate_digest_id", var: "used_ids", calls: vec![], lets: vec![] };
        v.visit_block(&f.block);
        for c in v.calls { calls.push((f.sig.ident.to_string(), c)); }
        for l in v.lets { lets.push((f.sig.ident.to_string(), l)); }
    }
    let gen_body = find_fn(&mdoc, "generate_digest_id").map(|f| toks(&*f.block));
    match gen_body {
        Some(b) if !calls.is_empty() => {
            writeln!(body, "(* issuance/mdoc.rs: every call generate_digest_id(<arg>) with its enclosing function *)\nDefinition gen_digest_id_calls : list (String.string * String.string) :=\n  {}.", coq_pairs(&calls)).unwrap();
            writeln!(body, "(* issuance/mdoc.rs: every `let [mut] used_ids = <init>` with its enclosing function *)\nDefinition gen_used_ids_inits : list (String.string * String.string) :=\n  {}.", coq_pairs(&lets)).unwrap();
            writeln!(body, "(* issuance/mdoc.rs: body of generate_digest_id *)\nDefinition gen_generate_digest_id_body : String.string := \"{b}\"%string.\n").unwrap();
            out.ok("issuance_used_sets", &format!("{} calls, {} initialisers", calls.len(), lets.len()));
        }
        _ => out.fail("issuance_used_sets", "fn generate_digest_id or its callers not found"),
    }
    // ---- what is hashed, and with what ----
    let hashed = dn.map(|f| {
        let mut c = MapClosures { param: "item".into(), bodies: vec![] };
        c.visit_block(&f.block);
        let mut m = MatchArms { on: "digest_algorithm", arms: None };
        m.visit_block(&f.block);
        (c.bodies, m.arms)
    });
    match hashed {
        Some((bodies, Some(arms))) if !bodies.is_empty() => {
            let rows: Vec<(String, String)> = bodies.iter().map(|b| ("item".to_string(), b.clone())).collect();
            writeln!(body, "(* issuance/mdoc.rs digest_namespace: bodies of the `.map(|item| ..)` closures *)\nDefinition gen_digest_item_closures : list (String.string * String.string) :=\n  {}.", coq_pairs(&rows)).unwrap();
            writeln!(body, "(* issuance/mdoc.rs digest_namespace: match digest_algorithm {{ .. }} *)\nDefinition gen_digest_alg_arms : list (String.string * String.string) :=\n  {}.\n", coq_pairs(&arms)).unwrap();
            out.ok("issuance_digest_input", &format!("{} closures, {} arms", bodies.len(), arms.len()));
        }
        _ => out.fail("issuance_digest_input", "expected `.map(|item| ..)` closures and `match digest_algorithm` in digest_namespace"),
    }
    // ---- prepare / complete: version literal, header construction ----
    let prep = find_impl_fn(&mdoc, "Mdoc", "prepare");
    let comp = find_impl_fn(&mdoc, "PreparedMdoc", "complete");
    match (prep, comp) {
        (Some(p), Some(c)) => {
            let versions = method_receiver_strs(&p.block, "to_string");
            let mut pushes = PushReceivers(vec![]);
            pushes.visit_block(&c.block);
            let mut calls_p = CallsAndLets { callee: "-", var: "protected", calls: vec![], lets: vec![] };
            calls_p.visit_block(&p.block);
            let mut lets_b = CallsAndLets { callee: "-", var: "mso_bytes", calls: vec![], lets: vec![] };
            lets_b.visit_block(&p.block);
            let mut lets_s = CallsAndLets { callee: "-", var: "prepared_sig", calls: vec![], lets: vec![] };
            lets_s.visit_block(&p.block);
            if versions.len() == 1 && calls_p.lets.len() == 1 && lets_b.lets.len() == 1 && lets_s.lets.len() == 1 {
                let l: Vec<String> = versions[0].as_bytes().iter().map(|x| x.to_string()).collect();
                writeln!(body, "(* issuance/mdoc.rs Mdoc::prepare: version: '..'.to_string() *)\nDefinition gen_mso_version : bytes := [{}].", l.join("; ")).unwrap();
                writeln!(body, "(* issuance/mdoc.rs Mdoc::prepare: let protected / let mso_bytes / let prepared_sig *)\nDefinition gen_prepare_lets : list (String.string * String.string) :=\n  {}.",
                    coq_pairs(&[("protected".into(), calls_p.lets[0].clone()), ("mso_bytes".into(), lets_b.lets[0].clone()), ("prepared_sig".into(), lets_s.lets[0].clone())])).unwrap();
                writeln!(body, "(* issuance/mdoc.rs PreparedMdoc::complete: every `<receiver>.push(<arg>)` *)\nDefinition gen_complete_pushes : list (String.string * String.string) :=\n  {}.\n", coq_pairs(&pushes.0)).unwrap();
                out.ok("issuance_cose_shape", "version literal, protected / payload construction, header pushes");
            } else {
                out.fail("issuance_cose_shape", "expected one version literal and let protected / mso_bytes / prepared_sig in Mdoc::prepare");
            }
        }
        _ => out.fail("issuance_cose_shape", "Mdoc::prepare or PreparedMdoc::complete not found"),
    }
    // ---- DigestId::new, wire structs ----
    let mso = parse_file(&format!("{repo}/src/definitions/mso.rs"));
    let isi = parse_file(&format!("{repo}/src/definitions/issuer_signed.rs"));
    match find_impl_fn(&mso, "DigestId", "new") {
        Some(f) => {
            writeln!(body, "(* definitions/mso.rs: body of DigestId::new *)\nDefinition gen_digest_id_new_body : String.string := \"{}\"%string.\n", toks(&f.block)).unwrap();
            out.ok("issuance_digest_id_new", "body tokens");
        }
        None => out.fail("issuance_digest_id_new", "impl DigestId { fn new } not found"),
    }
    match (struct_fields(&isi, "IssuerSignedItem"), struct_fields(&mso, "Mso"), enum_variants(&mso, "DigestAlgorithm")) {
        (Some((ca, fa)), Some((cb, fb)), Some((cc, vc))) => {
            writeln!(body, "Definition gen_issuer_signed_item_attrs : String.string := \"{}\"%string.\nDefinition gen_issuer_signed_item_fields : list (String.string * String.string * String.string) :=\n  {}.", ca.replace('"', "'"), coq_triples(&fa)).unwrap();
            writeln!(body, "Definition gen_mso_attrs : String.string := \"{}\"%string.\nDefinition gen_mso_fields : list (String.string * String.string * String.string) :=\n  {}.", cb.replace('"', "'"), coq_triples(&fb)).unwrap();
            writeln!(body, "Definition gen_digest_algorithm_attrs : String.string := \"{}\"%string.\nDefinition gen_digest_algorithm_variants : list (String.string * String.string * String.string) :=\n  {}.", cc.replace('"', "'"), coq_triples(&vc)).unwrap();
            out.ok("issuance_wire_fields", &format!("{} + {} fields, {} variants", fa.len(), fb.len(), vc.len()));
        }
        _ => out.fail("issuance_wire_fields", "struct IssuerSignedItem / struct Mso / enum DigestAlgorithm not found"),
    }
    out.files.insert("Issuance".into(), body);
}
